#!/venv/bin/python
"""Run every mutants/*.diff against the quick check named by its prefix (cNN_...) plus any extra checks
listed in mutants/EXTRA.json, and write mutants/RESULTS.md.  Scratch copies live under /tmp for one run each."""
import json, os, re, subprocess, sys
from pathlib import Path

ROOT = Path(__file__).resolve().parent.parent
extra = json.loads((ROOT / "mutants" / "EXTRA.json").read_text()) if (ROOT / "mutants" / "EXTRA.json").exists() else {}
rows = []
only = sys.argv[1:] 
for diff in sorted((ROOT / "mutants").glob("*.diff")):
    m = re.match(r"c(\d\d)_", diff.name)
    if not m:
        continue
    checks = [f"C{m.group(1)}"] + extra.get(diff.stem, [])
    if only and not any(c in only for c in checks):
        continue
    for c in checks:
        r = subprocess.run([str(ROOT / "tools" / "run_mutant.py"), str(diff), c], capture_output=True, text=True)
        line = (r.stdout.splitlines() or ["?"])[0]
        rc = re.search(r"rc=(\d)", line)
        mech = re.search(r"mechanism=([^ ]+)", line)
        rows.append((diff.stem, c, rc.group(1) if rc else "?", mech.group(1) if mech else ""))
        print(rows[-1], flush=True)
out = ["# Mutant sweep (quick tier, VERIF_SEED=0)", "", "rc=1: caught (VIOLATION); rc=0: missed; rc=2: inconclusive.", "",
       "| mutant | check | rc | first mechanism reported |", "|---|---|---|---|"]
out += [f"| {a} | {b} | {c} | {d} |" for a, b, c, d in rows]
(ROOT / "mutants" / "RESULTS.md").write_text("\n".join(out) + "\n")
