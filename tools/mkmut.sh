#!/bin/bash
# tools/mkmut.sh <name> <file-relative-to-repo> <python-regex> <replacement> : writes mutants/<name>.diff
set -e
name=$1; file=$2; pat=$3; rep=$4
tmp=$(mktemp -d /tmp/mkmut-XXXX); mkdir -p $tmp/a/$(dirname $file) $tmp/b/$(dirname $file)
cp /repo/$file $tmp/a/$file
/venv/bin/python - "$tmp/a/$file" "$tmp/b/$file" "$pat" "$rep" <<'PY'
import re,sys
s=open(sys.argv[1]).read(); n=re.subn(sys.argv[3], sys.argv[4], s, count=int(__import__('os').environ.get('COUNT','1')), flags=re.S)
assert n[1]>=1, "pattern not found"
open(sys.argv[2],'w').write(n[0])
PY
(cd $tmp && diff -u a/$file b/$file > ${OUTDIR:-/verif/mutants}/$name.diff || true)
rm -rf $tmp
wc -l ${OUTDIR:-/verif/mutants}/$name.diff
