#!/venv/bin/python
"""Regenerate seeded/INDEX.md from seeded/*/meta.json."""
import json
from pathlib import Path

ROOT = Path(__file__).resolve().parent.parent
rows = []
for d in sorted((ROOT / "seeded").glob("*/meta.json")):
    m = json.loads(d.read_text())
    res = m.get("checks_quick_against_change", {})
    rows.append(f"| {d.parent.name} | {m['property']} | {m['needs_to_manifest']} | "
                + ", ".join(f"{c}:rc{v['rc']}" for c, v in res.items()) + " | " + (", ".join(m.get("caught_by", [])) or "**none**")
                + " | " + "; ".join(x.split(' :: ')[0].replace('mechanism=', '') for v in res.values() for x in v["mechanisms"][:1]) + " |")
out = ["# Independently seeded changes", "",
       "Each directory: patch.diff (against /repo HEAD at the time, see meta.json repo_head), demo.py (fails with the change, passes without), "
       "README.md (the sub-agent's description), meta.json (what was verified and which checks were run against it).", "",
       "| seeded change | property | needs, in order to manifest | quick checks run (exit code) | caught by | mechanism reported |", "|---|---|---|---|---|---|"] + rows
(ROOT / "seeded" / "INDEX.md").write_text("\n".join(out) + "\n")
print("\n".join(rows))
