#!/venv/bin/python
"""Verify and keep one independently seeded change.

usage: tools/keep_seed.py <name> <worktree> <property> "<needs>" <checks,comma> <test paths...>
 - copies <worktree>/_seed/{patch.diff,demo.py,README.md} to seeded/<name>/
 - in a scratch copy of /repo (under /tmp, removed afterwards): demo must exit 0 without the patch and non-zero with it;
   the listed repository test files must pass with the patch
 - runs the listed checks against the patched copy (VOPY_SRC) and records their exit codes in meta.json"""
import json, os, shutil, subprocess, sys, tempfile, time
from pathlib import Path

ROOT = Path(__file__).resolve().parent.parent
name, wt, prop, needs, checks = sys.argv[1:6]
tests = sys.argv[6:]
dst = ROOT / "seeded" / name
dst.mkdir(parents=True, exist_ok=True)
for f in ("patch.diff", "demo.py", "README.md"):
    src = Path(wt) / "_seed" / f
    if src.exists():
        shutil.copy(src, dst / f)
# regenerate the patch from the worktree to be sure it is the source change only
diff = subprocess.run(["git", "-C", wt, "diff", "--", "vopy"], capture_output=True, text=True).stdout
if diff.strip():
    (dst / "patch.diff").write_text(diff)
scratch = Path(tempfile.mkdtemp(prefix="seedchk-"))
meta = {"property": prop, "needs_to_manifest": needs, "ran": []}
try:
    shutil.copytree("/repo", scratch / "repo", ignore=shutil.ignore_patterns(".git", "__pycache__", "*.pyc"))
    repo = scratch / "repo"
    env = dict(os.environ, PYTHONPATH=str(repo), PYTHONWARNINGS="ignore")
    def demo():
        d = (dst / "demo.py").read_text().replace(wt, str(repo))
        (repo / "_demo.py").write_text(d)
        return subprocess.run(["/venv/bin/python", "_demo.py"], cwd=repo, env=env, capture_output=True, text=True, timeout=900)
    r0 = demo()
    meta["demo_without_change_rc"] = r0.returncode
    ap = subprocess.run(["patch", "-p1", "-s", "-i", str(dst / "patch.diff")], cwd=repo, capture_output=True, text=True)
    meta["patch_applies_to_repo_head"] = ap.returncode == 0
    r1 = demo()
    meta["demo_with_change_rc"] = r1.returncode
    meta["demo_with_change_tail"] = (r1.stdout + r1.stderr)[-400:]
    if tests:
        t = subprocess.run(["/venv/bin/python", "-m", "pytest", "-q", "-p", "no:cacheprovider", *tests], cwd=repo, env=env, capture_output=True, text=True)
        meta["repo_tests"] = {"paths": tests, "rc": t.returncode, "tail": t.stdout.strip().splitlines()[-1:] }
    meta["ran"].append("demo.py in a scratch copy of /repo HEAD with and without patch.diff; repository tests listed under repo_tests with the patch applied")
    res = {}
    for c in [c for c in checks.split(",") if c]:
        e = dict(os.environ, VOPY_SRC=str(repo), VERIF_EVIDENCE_DIR=str(scratch / "ev"), VERIF_REPLAY_DIR=str(scratch / "rp"))
        r = subprocess.run([str(ROOT / "check"), c, "--tier", "quick"], env=e, capture_output=True, text=True)
        mech = [l.strip() for l in r.stdout.splitlines() if l.strip().startswith("mechanism=")][:2]
        res[c] = {"rc": r.returncode, "mechanisms": mech}
        print(c, r.returncode, mech[:1])
    meta["checks_quick_against_change"] = res
    meta["caught_by"] = [c for c, v in res.items() if v["rc"] == 1]
    meta["repo_head"] = subprocess.run(["git", "-C", "/repo", "rev-parse", "--short", "HEAD"], capture_output=True, text=True).stdout.strip()
finally:
    shutil.rmtree(scratch, ignore_errors=True)
(dst / "meta.json").write_text(json.dumps(meta, indent=1))
print(json.dumps({k: meta[k] for k in ("demo_without_change_rc", "demo_with_change_rc", "patch_applies_to_repo_head", "caught_by")}, indent=0))
print(meta.get("repo_tests"))
