#!/venv/bin/python
"""Apply one diff (or a python-regex substitution) to a scratch copy of /repo/vopy and run checks
against it with VOPY_SRC.  Scratch copy lives under /tmp only for the duration of the run.

usage: tools/run_mutant.py mutants/<name>.diff C09[,C10...] [--tier quick]
exit 0 if every listed check exits 1 (mutant caught), 1 otherwise."""
import os, shutil, subprocess, sys, tempfile
from pathlib import Path

ROOT = Path(__file__).resolve().parent.parent


def main():
    diff = Path(sys.argv[1]).resolve()
    checks = sys.argv[2].split(",")
    tier = sys.argv[sys.argv.index("--tier") + 1] if "--tier" in sys.argv else "quick"
    expect = int(sys.argv[sys.argv.index("--expect") + 1]) if "--expect" in sys.argv else 1
    scratch = Path(tempfile.mkdtemp(prefix="vopy-mut-"))
    try:
        shutil.copytree("/repo/vopy", scratch / "vopy", ignore=shutil.ignore_patterns("__pycache__"))
        r = subprocess.run(["patch", "-p1", "-s", "-i", str(diff)], cwd=scratch, capture_output=True, text=True)
        if r.returncode != 0:
            print("PATCH FAILED", r.stdout, r.stderr)
            return 2
        ok = True
        for c in checks:
            env = dict(os.environ, VOPY_SRC=str(scratch), VERIF_EVIDENCE_DIR=str(scratch / "ev"),
                       VERIF_REPLAY_DIR=str(scratch / "rp"))
            r = subprocess.run([str(ROOT / "check"), c, "--tier", tier], env=env, capture_output=True, text=True)
            first = [l for l in r.stdout.splitlines() if l.startswith(("VIOLATION", "INCONCLUSIVE", "  mechanism"))][:2]
            print(f"{diff.name:45s} {c} rc={r.returncode} {'AS-EXPECTED' if r.returncode == expect else 'UNEXPECTED'} {first}")
            if r.returncode != expect:
                ok = False
                print(r.stdout[-1500:], r.stderr[-500:])
        return 0 if ok else 1
    finally:
        shutil.rmtree(scratch, ignore_errors=True)


sys.exit(main())
