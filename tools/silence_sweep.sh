#!/bin/bash
# tools/silence_sweep.sh <tier> "<seeds>" [ids...]  — every check must exit 0 on the unchanged tree
tier=$1; seeds=$2; shift 2
ids=${@:-C01 C02 C03 C04 C05 C06 C07 C08 C09 C10 C11 C12 C13 C14 C15 C16 C17 C18 C19 C20}
cd "$(dirname "$0")/.."
export VERIF_EVIDENCE_DIR=${VERIF_EVIDENCE_DIR:-/tmp/sweep-ev-$$}
mkdir -p $VERIF_EVIDENCE_DIR
for s in $seeds; do for p in $ids; do
  out=$(VERIF_SEED=$s ./check $p --tier $tier 2>&1); rc=$?
  echo "seed=$s $p rc=$rc $(echo "$out" | grep -E '^\[' | sed 's/.*events=/events=/' | cut -c1-90)"
  if [ $rc -ne 0 ]; then echo "$out" | grep -E "VIOL|INCON|mechanism" | head -6 | cut -c1-300; fi
done; done
rm -rf $VERIF_EVIDENCE_DIR
