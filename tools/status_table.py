#!/venv/bin/python
"""Print a markdown status table from evidence/*.json (used for DESIGN.md section 9.0)."""
import json
from pathlib import Path

ROOT = Path(__file__).resolve().parent.parent
print("| id | tier | events | distinct non-trivial | wall s | known findings reproduced | key counters |")
print("|---|---|---|---|---|---|---|")
for f in sorted((ROOT / "evidence").glob("C*.json")):
    e = json.loads(f.read_text())
    c = e["coverage"]
    cnt = {k: v for k, v in c.get("counters", {}).items() if "::" not in k and k != "evaluations"}
    top = ", ".join(f"{k}={v}" for k, v in sorted(cnt.items(), key=lambda kv: -kv[1])[:5])
    print(f"| {e['property_id']} | {e['tier']} | {c['evaluations']} | {c['distinct_nontrivial']} | {e['wall_s']} | "
          f"{', '.join(c.get('known_findings_reproduced', {}).keys()) or '-'} | {top} |")
