#!/venv/bin/python
"""Regenerate MANIFEST.json from the table below + the check modules present in vmon/props."""
import json
import sys
from pathlib import Path

ROOT = Path(__file__).resolve().parent.parent
sys.path.insert(0, str(ROOT))

BASELINE_CMD = (
    "cd /repo && /venv/bin/python -m pytest -ra -q -p no:cacheprovider --timeout=900 "
    "--continue-on-collection-errors"
)

T = {
    "C01": ("algo-runs", "history + offline implication check",
            "stub/real posterior histories monitored per round for truth-in-region; final P judged by NNLS-gap and dominance oracles",
            "premise (truth inside displayed region) is re-checked from the displayed regions, not taken from the stub"),
    "C02": ("algo-runs", "invariant at phase hooks vs reference transition",
            "every (round, design) elimination decision recomputed from the displayed regions with independent geometry oracles",
            "pessimistic set taken as observed (judged under C11); tolerance bands of DESIGN 2.4"),
    "C03": ("algo-runs", "invariant at phase hooks vs reference transition",
            "every admission / usefulness / Auer hold-back decision recomputed from displayed regions",
            "same bands as C10; VOGP_AD admissions demanded only when the depth gate is open"),
    "C04": ("schedules", "observed schedule fed through real design_space.update, exact Gaussian/chi2 tail series",
            "real compute_radius/alpha/beta called for t up to 2^62 (int) and 2^400 (float); region built by real update; miss probability summed exactly / by dyadic blocks",
            "bounded-horizon restatement: beyond 2^400 the fitted log growth is assumed to continue"),
    "C05": ("algo-runs", "history + offline implication check",
            "VOGP / epsilon-PAL runs to termination under valid histories; final P judged with LDP u* oracle",
            "premise re-checked from displayed regions; +-tau band around isolated/dominated gives no verdict"),
    "C06": ("algo-runs", "history + shadow accounting model",
            "run_one_step wrapper + recording problem proxy; monotonicity, disjointness, completion flag, idempotence, round and sample/cost accounting after every step",
            "stub posterior models replace GP training at construction (real models in thorough tier)"),
    "C07": ("algo-runs", "recording proxy + arg-max oracle",
            "every acquisition table logged; picks compared with arg-max of the table and with an independent recomputation; model data delta matched to stamped observations",
            "Thompson-entropy tables are random: only table-level arg-max is judged there"),
    "C08": ("naive", "closed-form orthant probability + binomial monitor",
            "algorithm.L read from real objects; failure probability from bivariate-normal orthant law; real runs counted against Binomial(N, delta) 1-1e-9 quantile; P vs brute-force Pareto of logged means",
            "false-alarm budget 1e-9 per configuration"),
    "C09": ("predicates", "reference-model monitor (support function)",
            "real is_dominated on boundary-aimed pairs vs closed-form oracle; exact boundary on integer lattices",
            "bands: rect 1e-12 rel, ellipsoid 2e-6+1e-4*mag"),
    "C10": ("predicates", "reference-model monitor (LP / minimax certificates)",
            "real is_covered on boundary-aimed pairs vs certified primal/dual sandwich",
            "bands: rect 1e-6 rel, ellipsoid 2e-6+1e-4*mag"),
    "C11": ("predicates", "reference-model monitor (per-vertex LP)",
            "real check_dominates vs per-vertex LP; soundness all cones, completeness 2x2 cones",
            "band 1e-6 rel"),
    "C12": ("orders", "exact rational reference + angle sweeps",
            "dominates/is_inside vs Fraction arithmetic on lattices incl. boundary; preorder laws exhaustively on small lattices; bundled cone geometry",
            "float products exact on the lattices used"),
    "C13": ("orders", "brute-force dominance matrix",
            "get_pareto_set / naive on exhaustive small multisets and random sets with duplicates/chains",
            "none beyond numpy"),
    "C14": ("regions", "invariant at design_space.update hook",
            "after each update: centre/half-width/ellipsoid vs model.predict on all points; untouched regions bit-identical; icontract invariant lower<=upper",
            "stub + real models"),
    "C15": ("gp", "shadow data + closed-form GP conditioning",
            "predict vs dense Cholesky conditioning on Gram blocks from evaluate_kernel; shapes; invariances",
            "kernel, mean constant and noise read from the gpytorch modules"),
    "C16": ("models", "shadow accumulator",
            "EmpiricalMeanVarModel vs independent dict-of-lists under random op interleavings",
            "none"),
    "C17": ("orders", "NNLS / LDP primal-dual certificates",
            "alpha, u*, d1, beta vs Lawson-Hanson NNLS with explicit primal and dual certificates",
            "scipy.optimize.nnls"),
    "C18": ("adaptive", "invariant at refine/step hooks + shadow tree",
            "dyadic exact tiling checks after every refine_design and VOGP_AD step",
            "runs capped in rounds"),
    "C19": ("metrics", "reference model + algebraic laws",
            "get_smallmij/get_delta/is_covered/F1 vs NNLS/LDP oracles and F1 laws",
            "scipy.optimize.nnls"),
    "C20": ("problems", "reference lookup + moment monitor",
            "evaluate vs exact nearest-row lookup; sample moments vs configured covariance within 7 s.e.; input immutability; dataset scaling",
            "false-alarm ~1e-11 per moment entry"),
}


def main():
    present = sorted(p.stem.upper() for p in (ROOT / "vmon" / "props").glob("c[0-9][0-9].py"))
    pending_reason = json.loads((ROOT / "tools" / "pending.json").read_text()) if (ROOT / "tools" / "pending.json").exists() else {}
    checks, na = [], []
    engines = {}
    for pid, (engine, tech, text, note) in T.items():
        if pid in present and pid not in pending_reason:
            checks.append({
                "property_id": pid,
                "quick_cmd": f"./check {pid} --tier quick",
                "thorough_cmd": f"./check {pid} --tier thorough",
                "evidence_file": f"evidence/{pid}.json",
                "replay_cmd_template": f"./check {pid} --replay {{path}}",
                "engine": engine,
                "level_claimed": {"category": "exploration", "text": text, "design_ref": f"DESIGN.md section 4 {pid}"},
                "level_note": note,
                "technique": "runtime monitoring: " + tech,
            })
            engines.setdefault(engine, []).append(pid)
        else:
            na.append({"property_id": pid, "reason": pending_reason.get(pid, "check not built yet in this session (runtime monitoring applies; see DESIGN.md section 4)")})
    man = {
        "version": 1,
        "setup_cmd": "/venv/bin/pip install -q --no-index --find-links /opt/veriftools/wheels --target .deps icontract >/dev/null 2>&1; /venv/bin/python -m compileall -q vmon >/dev/null; true",
        "hooks": {
            "guard": "VOPY_VERIF",
            "enable": "no source hooks: monitors attach by monkeypatching the real classes/functions after import (vmon/patching.py); VOPY_VERIF is unused by /repo",
            "baseline_off_cmd": BASELINE_CMD,
            "source_commits": [],
            "add_only": True,
        },
        "engines": [{"name": e, "path": "vmon/", "serves_properties": ps, "kind_free_text": "python runtime monitors over the real code"} for e, ps in engines.items()],
        "checks": checks,
        "notes": "Every check: ./check <ID> --tier quick|thorough ; exit 0 held / 1 VIOLATION / 2 INCONCLUSIVE. VERIF_SEED honoured. Known findings: known_findings.json.",
        "not_applicable": na,
    }
    (ROOT / "MANIFEST.json").write_text(json.dumps(man, indent=1))
    import jsonschema
    jsonschema.validate(man, json.loads(Path("/root/.vp/MANIFEST.schema.json").read_text()))
    print("MANIFEST ok:", len(checks), "checks;", len(na), "not_applicable")


main()
