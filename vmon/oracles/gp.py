"""Closed-form GP conditioning from Gram matrices.

The kernel, prior mean and noise are *read from the model's own gpytorch modules* (the property
is "under the model's own kernel, mean constant and noise"); the data conditioned on is the
monitor's shadow of what the wrapper was given, never the wrapper's own tensors.  The linear
algebra is dense numpy Cholesky with a residual check."""
from __future__ import annotations

import numpy as np


def _solve_spd(A, B):
    A = (A + A.T) / 2
    try:
        L = np.linalg.cholesky(A)
    except np.linalg.LinAlgError:
        jitter = 1e-12 * np.trace(A) / len(A)
        L = np.linalg.cholesky(A + jitter * np.eye(len(A)))
    X = np.linalg.solve(L.T, np.linalg.solve(L, B))
    resid = float(np.abs(A @ X - B).max() / (1e-300 + np.abs(B).max())) if B.size else 0.0
    return X, resid


def multioutput_blocks(model, Z):
    """Prior mean (M,m) and prior covariance (M*m, M*m) in point-major layout for the
    Independent / Correlated wrappers, evaluated by the model's own mean/covar modules."""
    import torch

    gp = model.model
    Zt = torch.as_tensor(np.asarray(Z, float))
    m = model.output_dim
    M = len(Z)
    with torch.no_grad():
        K = gp.covar_module(Zt, Zt).to_dense().numpy()
        mu = gp.mean_module(Zt).numpy()
    if K.ndim == 3:  # batch-independent: (m, M, M)
        full = np.zeros((M * m, M * m))
        for t in range(m):
            full[t::m, t::m] = K[t]
        K = full
        mu = mu.T if mu.shape == (m, M) else mu
    mu = np.asarray(mu, float).reshape(M, m)
    return mu, K


def multioutput_noise(model):
    """(m, m) observation-noise covariance of one point, from the likelihood."""
    import torch

    lik = model.likelihood
    m = model.output_dim
    S = np.zeros((m, m))
    with torch.no_grad():
        if getattr(lik, "has_global_noise", False):
            S += np.eye(m) * float(lik.noise.reshape(-1)[0])
        if getattr(lik, "has_task_noise", False):
            if lik.rank == 0:
                S += np.diag(lik.task_noises.numpy().reshape(-1))
            else:
                S += lik.task_noise_covar.numpy()
    return S


def multioutput_posterior(model, Xtr, Ytr, Xte):
    """exact posterior of the latent f at each test point: means (N,m), covs (N,m,m)."""
    m = model.output_dim
    Xtr = np.asarray(Xtr, float).reshape(-1, model.input_dim)
    Xte = np.asarray(Xte, float)
    n, N = len(Xtr), len(Xte)
    Z = np.vstack([Xte, Xtr]) if n else Xte
    mu, K = multioutput_blocks(model, Z)
    te = np.arange(N * m)
    if n == 0:
        means = mu[:N]
        covs = np.stack([K[i * m:(i + 1) * m, i * m:(i + 1) * m] for i in range(N)])
        return means, covs, 0.0
    tr = np.arange(N * m, (N + n) * m)
    Sn = multioutput_noise(model)
    Kyy = K[np.ix_(tr, tr)] + np.kron(np.eye(n), Sn)
    r = (np.asarray(Ytr, float).reshape(n, m) - mu[N:]).reshape(-1)
    Kst = K[np.ix_(te, tr)]
    sol, resid = _solve_spd(Kyy, np.column_stack([r, Kst.T]))
    mean = mu[:N].reshape(-1) + Kst @ sol[:, 0]
    cov = K[np.ix_(te, te)] - Kst @ sol[:, 1:]
    means = mean.reshape(N, m)
    covs = np.stack([cov[i * m:(i + 1) * m, i * m:(i + 1) * m] for i in range(N)])
    return means, covs, resid


def modellist_posterior(model, data, Xte):
    """data: list over objectives of (X_k (n_k,d), y_k (n_k,)). Returns means (N,m), vars (N,m)."""
    import torch

    Xte = np.asarray(Xte, float)
    N = len(Xte)
    m = model.output_dim
    means = np.zeros((N, m))
    vars_ = np.zeros((N, m))
    worst = 0.0
    for k in range(m):
        sub = model.model.models[k]
        Xk, yk = data[k]
        Xk = np.asarray(Xk, float).reshape(-1, model.input_dim)
        n = len(Xk)
        Z = np.vstack([Xte, Xk]) if n else Xte
        Zt = torch.as_tensor(Z)
        with torch.no_grad():
            K = sub.covar_module(Zt, Zt).to_dense().numpy()
            mu = sub.mean_module(Zt).numpy().reshape(-1)
            noise = float(sub.likelihood.noise.reshape(-1)[0])
        if n == 0:
            means[:, k] = mu[:N]
            vars_[:, k] = np.diag(K)[:N]
            continue
        Kyy = K[N:, N:] + noise * np.eye(n)
        Kst = K[:N, N:]
        sol, resid = _solve_spd(Kyy, np.column_stack([np.asarray(yk, float) - mu[N:], Kst.T]))
        worst = max(worst, resid)
        means[:, k] = mu[:N] + Kst @ sol[:, 0]
        vars_[:, k] = np.diag(K[:N, :N] - Kst @ sol[:, 1:])
    return means, vars_, worst
