"""Independent geometric oracles.

Nothing here calls cvxpy or any vopy helper.  Optimisation-based answers come back as a
certified sandwich [lo, hi] around the true signed margin: `lo` is attained by an explicit
primal point that is checked directly, `hi` by an explicit dual multiplier.  A margin is
"decisive" only when the whole sandwich lies on one side of the tolerance band.
"""
from __future__ import annotations

import itertools

import numpy as np
from scipy.optimize import linprog, minimize, nnls


# ---------------------------------------------------------------------------------------
# helpers
# ---------------------------------------------------------------------------------------
def slack_vec(s, n):
    s = np.asarray(s, dtype=float)
    if s.size == 1:
        return np.full(n, float(s.reshape(-1)[0]))
    return s.reshape(-1).astype(float)


def box_support(lo, hi, v):
    """max_{z in [lo,hi]} v.z"""
    v = np.asarray(v, float)
    return float(np.sum(np.where(v >= 0, v * hi, v * lo)))


def box_argsupport(lo, hi, v):
    return np.where(np.asarray(v) >= 0, hi, lo)


def ell_support(c, S, a, v):
    """max over {x: ||S^-1/2 (x-c)|| <= a} of v.x = v.c + a sqrt(v'Sv)"""
    q = float(v @ S @ v)
    return float(v @ c) + float(a) * np.sqrt(max(q, 0.0))


def ell_argsupport(c, S, a, v):
    q = float(v @ S @ v)
    if q <= 0:
        return np.array(c, float)
    return np.asarray(c, float) + float(a) * (S @ v) / np.sqrt(q)


# ---------------------------------------------------------------------------------------
# "is dominated":  forall z in R1, z' in R2 :  W (z' + s - z) >= 0
# ---------------------------------------------------------------------------------------
def rect_dominated_margin(W, lo1, hi1, lo2, hi2, s):
    """closed form; s is an objective-space shift (scalar or m-vector). Returns
    (margin, per-facet margins); dominated iff margin >= 0."""
    W = np.asarray(W, float)
    m = W.shape[1]
    sv = slack_vec(s, m)
    per = []
    for w in W:
        mn2 = -box_support(lo2, hi2, -w)  # min w.z'
        mx1 = box_support(lo1, hi1, w)  # max w.z
        per.append(w @ sv + mn2 - mx1)
    per = np.array(per)
    return float(per.min()), per


def ell_dominated_margin(W, c1, S1, a1, c2, S2, a2, s):
    """closed form; s is a per-facet allowance (scalar or K-vector).
    dominated iff min_n [ min w_n.(y-x) + s_n ] >= 0"""
    W = np.asarray(W, float)
    K = W.shape[0]
    sv = slack_vec(s, K)
    per = []
    for n, w in enumerate(W):
        mn = float(w @ (np.asarray(c2) - np.asarray(c1)))
        mn -= float(a1) * np.sqrt(max(float(w @ S1 @ w), 0.0))
        mn -= float(a2) * np.sqrt(max(float(w @ S2 @ w), 0.0))
        per.append(mn + sv[n])
    per = np.array(per)
    return float(per.min()), per


# ---------------------------------------------------------------------------------------
# "is covered":  exists z in R1, z' in R2 :  W (z' - z) >= slack
# margin = max_{d in D} min_n (W d - sK)_n   with D = R2 - R1  (a convex body)
#        = min_{lam in simplex} h_D(W' lam) - lam.sK            (minimax)
# ---------------------------------------------------------------------------------------
def _lp_max_min(W, dlo, dhi, sK):
    """max t s.t. W d - sK >= t, dlo <= d <= dhi.  returns (lo, hi, d*, lam)"""
    K, m = W.shape
    # variables (d, t); minimise -t ; constraints  -W d + t <= -sK
    c = np.zeros(m + 1)
    c[-1] = -1.0
    A = np.hstack([-W, np.ones((K, 1))])
    b = -sK
    bounds = [(dlo[i], dhi[i]) for i in range(m)] + [(None, None)]
    res = linprog(c, A_ub=A, b_ub=b, bounds=bounds, method="highs")
    if res.status != 0:
        return -np.inf, np.inf, None, None
    d = np.clip(res.x[:m], dlo, dhi)
    lo = float(np.min(W @ d - sK))
    lam = -np.asarray(res.ineqlin.marginals, float)
    lam = np.clip(lam, 0, None)
    if lam.sum() <= 0:
        hi = np.inf
    else:
        lam = lam / lam.sum()
        hi = box_support(dlo, dhi, W.T @ lam) - float(lam @ sK)
    return lo, hi, d, lam


def rect_covered_margin(W, lo1, hi1, lo2, hi2, s):
    """s is an objective-space shift (scalar or m-vector): constraint W(z'-z-s) >= 0.
    Returns certified (lo, hi) around the margin; covered iff margin >= 0."""
    W = np.asarray(W, float)
    m = W.shape[1]
    sv = slack_vec(s, m)
    dlo = np.asarray(lo2, float) - np.asarray(hi1, float) - sv
    dhi = np.asarray(hi2, float) - np.asarray(lo1, float) - sv
    lo, hi, d, lam = _lp_max_min(W, dlo, dhi, np.zeros(W.shape[0]))
    return lo, hi


def rect_covered_margin_facet(W, lo1, hi1, lo2, hi2, sK):
    """per-facet slack version: W(z'-z) >= sK"""
    W = np.asarray(W, float)
    dlo = np.asarray(lo2, float) - np.asarray(hi1, float)
    dhi = np.asarray(hi2, float) - np.asarray(lo1, float)
    lo, hi, d, lam = _lp_max_min(W, dlo, dhi, slack_vec(sK, W.shape[0]))
    return lo, hi


def _proj_simplex(v):
    n = len(v)
    u = np.sort(v)[::-1]
    css = np.cumsum(u)
    rho = np.nonzero(u * np.arange(1, n + 1) > (css - 1))[0][-1]
    theta = (css[rho] - 1) / (rho + 1.0)
    return np.maximum(v - theta, 0)


def ell_covered_margin(W, c1, S1, a1, c2, S2, a2, s):
    """per-facet slack (scalar or K-vector): exists x in E1, y in E2: W(y-x) >= s.
    Returns certified (lo, hi): hi = g(lam) for an explicit lam in the simplex,
    lo = min_n (W(y-x) - s)_n for explicit x in E1, y in E2."""
    W = np.asarray(W, float)
    K, m = W.shape
    sK = slack_vec(s, K)
    c1, c2 = np.asarray(c1, float), np.asarray(c2, float)
    S1, S2 = np.asarray(S1, float), np.asarray(S2, float)
    dc = c2 - c1

    def g(lam):
        v = W.T @ lam
        return (
            float(v @ dc)
            + float(a2) * np.sqrt(max(float(v @ S2 @ v), 0.0))
            + float(a1) * np.sqrt(max(float(v @ S1 @ v), 0.0))
            - float(lam @ sK)
        )

    def primal(lam):
        v = W.T @ lam
        if np.linalg.norm(v) < 1e-14:
            return -np.inf
        y = ell_argsupport(c2, S2, a2, v)
        x = ell_argsupport(c1, S1, a1, -v)
        return float(np.min(W @ (y - x) - sK))

    cands = [np.eye(K)[i] for i in range(K)] + [np.full(K, 1.0 / K)]
    best_lam, best = None, np.inf
    if K == 2:
        # golden section on lam=(t,1-t); g convex in t
        phi = (np.sqrt(5) - 1) / 2
        a, b = 0.0, 1.0
        x1, x2 = b - phi * (b - a), a + phi * (b - a)
        f1, f2 = g(np.array([x1, 1 - x1])), g(np.array([x2, 1 - x2]))
        for _ in range(90):
            if f1 < f2:
                b, x2, f2 = x2, x1, f1
                x1 = b - phi * (b - a)
                f1 = g(np.array([x1, 1 - x1]))
            else:
                a, x1, f1 = x1, x2, f2
                x2 = a + phi * (b - a)
                f2 = g(np.array([x2, 1 - x2]))
        t = (a + b) / 2
        cands.append(np.array([t, 1 - t]))
    else:
        for start in list(cands):
            try:
                res = minimize(
                    g,
                    start,
                    method="SLSQP",
                    bounds=[(0, 1)] * K,
                    constraints=[{"type": "eq", "fun": lambda l: l.sum() - 1}],
                    options={"maxiter": 200, "ftol": 1e-14},
                )
                lam = _proj_simplex(res.x)
                cands.append(lam)
            except Exception:
                pass
    lo = -np.inf
    for lam in cands:
        val = g(lam)
        if val < best:
            best, best_lam = val, lam
        lo = max(lo, primal(lam))
    # refine the primal around the best multiplier (degenerate optimum at a simplex face)
    if best - lo > 1e-9 * (1 + abs(best)):
        for eps in (1e-3, 1e-5, 1e-7):
            for i in range(K):
                lam = _proj_simplex(best_lam * (1 - eps) + eps * np.eye(K)[i])
                lo = max(lo, primal(lam))
    return lo, best


# ---------------------------------------------------------------------------------------
# pessimistic comparison: forall z in R1 exists z' in R2 : W (z - z') >= 0
# ---------------------------------------------------------------------------------------
def rect_vertices(lo, hi):
    return np.array(list(itertools.product(*[[a, b] for a, b in zip(lo, hi)])), float)


def pess_dominates_margin(W, lo1, hi1, lo2, hi2):
    """min over vertices v of R1 of max_{z' in R2} min_n w_n.(v - z').  Certified (lo, hi)."""
    W = np.asarray(W, float)
    lo_all, hi_all = np.inf, np.inf
    for v in rect_vertices(lo1, hi1):
        # d = v - z' ranges over box [v-hi2, v-lo2]
        lo, hi, _, _ = _lp_max_min(W, v - np.asarray(hi2, float), v - np.asarray(lo2, float), np.zeros(W.shape[0]))
        lo_all = min(lo_all, lo)
        hi_all = min(hi_all, hi)
    return lo_all, hi_all


# ---------------------------------------------------------------------------------------
# cone constants
# ---------------------------------------------------------------------------------------
def cone_alpha(W):
    """alpha_n = max { w_n.x : W x >= 0, ||x|| <= 1 } = || P_C(w_n) ||  (Moreau).
    Returns (alpha, lo, hi) with certified bounds."""
    W = np.asarray(W, float)
    K, m = W.shape
    alpha = np.zeros(K)
    lo = np.zeros(K)
    hi = np.zeros(K)
    for n in range(K):
        w = W[n]
        mu, _ = nnls(W.T, -w, maxiter=50 * (K + m))
        p = w + W.T @ mu  # projection of w onto C
        nrm = float(np.linalg.norm(p))
        hi[n] = nrm  # dual bound: valid for every mu >= 0
        if nrm > 1e-14:
            x = p / nrm
            viol = min(0.0, float(np.min(W @ x)))
            # pull x inside the cone along a strictly interior direction if needed
            lo[n] = float(w @ x) + 2 * viol  # conservative
        else:
            lo[n] = 0.0
        alpha[n] = nrm
    return alpha, lo, hi


def ldp(G, h):
    """least distance programming: min ||z|| s.t. G z >= h (Lawson-Hanson ch. 23).
    returns (z, lower_bound) ; z None if infeasible."""
    G = np.asarray(G, float)
    h = np.asarray(h, float)
    k, n = G.shape
    # the problem is positively homogeneous in h: solve it for h / max|h| (the feasibility test below is absolute; without this
    # normalisation right-hand sides of order 1e5 or more were declared infeasible — found when C19 was given values around 1e6)
    hs = float(np.abs(h).max())
    if hs > 0 and hs != 1.0:
        z, lb = ldp(G, h / hs)
        return (None, np.inf) if z is None else (z * hs, lb * hs)
    E = np.vstack([G.T, h.reshape(1, -1)])
    f = np.zeros(n + 1)
    f[-1] = 1.0
    u, rn = nnls(E, f, maxiter=100 * (k + n))
    r = E @ u - f
    if abs(r[-1]) < 1e-13 or np.linalg.norm(r) < 1e-13:
        return None, np.inf
    z = -r[:n] / r[-1]
    # dual bound: for y >= 0, ||z|| >= (y.h) / ||G'y||
    y = u
    den = float(np.linalg.norm(G.T @ y))
    lb = float(y @ h) / den if den > 0 else 0.0
    return z, lb


def cone_ustar(W):
    """min ||z|| : W z >= 1.  returns (u_star, d1, lower_bound_on_d1, primal_feas)"""
    W = np.asarray(W, float)
    z, lb = ldp(W, np.ones(W.shape[0]))
    if z is None:
        return None, np.inf, np.inf, -np.inf
    mn = float(np.min(W @ z))
    if 0 < mn < 1:
        z = z / mn  # make the primal point exactly feasible: its norm is then a certified upper bound on d1
    d1 = float(np.linalg.norm(z))
    return z / d1, d1, lb, float(np.min(W @ z) - 1.0)


def eps_cover_distance(W, vi, vj):
    """min ||u|| : u in C, vj + u - vi in C.  returns (dist, lower_bound, feas)"""
    W = np.asarray(W, float)
    h = np.maximum(0.0, W @ (np.asarray(vi, float) - np.asarray(vj, float)))
    if np.all(h <= 0):
        return 0.0, 0.0, 0.0
    z, lb = ldp(W, h)
    if z is None:
        return np.inf, np.inf, -np.inf
    return float(np.linalg.norm(z)), lb, float(np.min(W @ z - h))


def small_m(W, alpha, vi, vj):
    """m(i,j) = min_n [w_n.(vj - vi)]^+ / alpha_n"""
    p = np.asarray(W, float) @ (np.asarray(vj, float) - np.asarray(vi, float))
    p = np.maximum(p, 0.0)
    return float(np.min(p / np.asarray(alpha, float)))


def gaps(W, alpha, mu):
    mu = np.asarray(mu, float)
    N = len(mu)
    D = np.zeros(N)
    for i in range(N):
        P = np.maximum((mu - mu[i]) @ np.asarray(W, float).T, 0.0) / np.asarray(alpha, float)
        D[i] = float(np.max(np.min(P, axis=1)))
    return D


# ---------------------------------------------------------------------------------------
# dominance / Pareto by brute force
# ---------------------------------------------------------------------------------------
def dom_matrix(W, X, tol=0.0):
    """D[i,j] = True iff x_i dominates x_j (W(x_i-x_j) >= -tol)."""
    X = np.asarray(X, float)
    diff = X[:, None, :] - X[None, :, :]
    return (diff @ np.asarray(W, float).T >= -tol).all(axis=-1)


# ---------------------------------------------------------------------------------------
# cone families (independent construction where possible)
# ---------------------------------------------------------------------------------------
def theta_cone_W(theta_deg):
    """2x2 matrix for the cone of directions within theta/2 of the diagonal (own derivation):
    boundary rays at angles pi/4 +- theta/2; inward unit normals."""
    th = np.radians(theta_deg)
    a1, a2 = np.pi / 4 + th / 2, np.pi / 4 - th / 2
    # ray r(a) = (cos a, sin a); inward normal for upper ray a1: rotate by -90deg
    n1 = np.array([np.sin(a1), -np.cos(a1)])
    n2 = np.array([-np.sin(a2), np.cos(a2)])
    return np.vstack([n2, n1])


def random_cone(rng, m, K, min_interior=0.15):
    """random pointed polyhedral cone with K unit facets whose interior contains a ball of
    angular radius ~min_interior around a random axis, and which is pointed (W has rank m)."""
    for _ in range(200):
        axis = rng.normal(size=m)
        axis /= np.linalg.norm(axis)
        rows = []
        while len(rows) < K:
            w = rng.normal(size=m)
            w /= np.linalg.norm(w)
            if w @ axis > min_interior:
                rows.append(w)
        W = np.array(rows)
        if np.linalg.matrix_rank(W) == m:
            # pointedness: C ∩ -C = {0} iff rank m ; nonempty interior: axis strictly inside
            return W
    raise RuntimeError("no cone")
