"""Shared engine for the region predicates (C09 is_dominated, C10 is_covered, C11 check_dominates).

Drives the real classmethods / dispatch helpers on generated region pairs aimed at the decision
boundary and judges each answer against the certified oracle margin."""
from __future__ import annotations

import traceback
from collections import Counter

import numpy as np

from vmon import gen
from vmon.core import TAU_LP, TAU_SCS_ABS, TAU_SCS_REL, TAU_SOCP_ABS, TAU_SOCP_REL, case_hash
from vmon.oracles import geometry as G

SOLVER_STATUS: Counter = Counter()
NATURAL_SOLVER_ERRORS = [0]
_installed = [False]


def install_solver_logger():
    """wrap cvxpy.Problem.solve to record the status strings actually seen."""
    if _installed[0]:
        return
    import cvxpy as cp

    orig = cp.Problem.solve

    def solve(self, *a, **k):
        try:
            r = orig(self, *a, **k)
        except cp.error.SolverError:
            NATURAL_SOLVER_ERRORS[0] += 1
            SOLVER_STATUS["SolverError"] += 1
            raise
        SOLVER_STATUS[str(self.status)] += 1
        return r

    cp.Problem.solve = solve
    _installed[0] = True


def mk_rect(lo, hi):
    from vopy.confidence_region import RectangularConfidenceRegion

    return RectangularConfidenceRegion(len(lo), np.array(lo, float), np.array(hi, float))


def mk_ell(c, S, a):
    from vopy.confidence_region import EllipsoidalConfidenceRegion

    return EllipsoidalConfidenceRegion(len(c), np.array(c, float), np.array(S, float), a)


def crash_mechanism(exc: BaseException) -> str:
    tb = traceback.extract_tb(exc.__traceback__)
    fn = "?"
    for fr in reversed(tb):
        if "/vopy/" in fr.filename:
            fn = fr.name
            break
    return f"crash:{type(exc).__name__}:{fn}"


def band(kind, mag, fallback=False):
    """fallback=True: the decision was taken by the SCS fallback after a natural SolverError of the default solver"""
    if kind == "rect-exact":
        return 1e-12 * (1 + mag)
    if kind == "rect":
        t = TAU_LP * (1 + mag)
    else:
        t = TAU_SOCP_ABS + TAU_SOCP_REL * mag
    if fallback:
        t = max(t, TAU_SCS_ABS + TAU_SCS_REL * mag)
    return t


def judge(mon, prop, pred_name, answer, lo, hi, tau, case, h, cls, demand_true_only=False,
          demand_false_only=False):
    """three-valued comparison. answer: bool from real code. [lo,hi]: certified margin sandwich;
    truth is (margin >= 0)."""
    if not (np.isfinite(lo) or np.isfinite(hi)):
        mon.count("oracle_gave_up")
        return "indeterminate"
    if lo > tau:
        expected = True
    elif hi < -tau:
        expected = False
    else:
        mon.count("inside_band")
        mon.event(h, nontrivial=False, cls=cls)
        return "indeterminate"
    mon.count("decisive_true" if expected else "decisive_false")
    mon.event(h, nontrivial=True, cls=cls)
    ans = bool(answer)
    if ans != expected:
        if (expected and demand_false_only) or ((not expected) and demand_true_only):
            mon.count("not_demanded")
            return "indeterminate"
        rel = (lo if expected else -hi) / max(tau, 1e-300)
        mon.violation(
            f"{pred_name}:wrong-{'false' if expected else 'true'}:{case.get('kind')}",
            f"{pred_name} returned {ans}, oracle margin in [{lo:.6g},{hi:.6g}] (band {tau:.3g}, {rel:.1f}x band) => {expected}",
            case,
        )
        return "violated"
    return "held"
