"""Synthetic datasets / problems installed from the harness.

get_dataset_instance(name) looks the name up in the globals of vopy.datasets.dataset; the harness
sets a generated Dataset subclass there.  Two kinds: raw (goes through the real Dataset.__init__,
scaling included) and exact (skips super().__init__ so values are placed exactly)."""
from __future__ import annotations

import itertools

import numpy as np

_counter = itertools.count()


def install_dataset(in_data, out_data, exact=True, name=None):
    """returns the dataset name to pass to an algorithm constructor."""
    import vopy.datasets.dataset as D

    X = np.array(in_data, float)
    Y = np.array(out_data, float)
    name = name or f"VmonDS{next(_counter)}"

    if exact:
        class DS(D.Dataset):
            _in_dim, _out_dim, _cardinality = X.shape[1], Y.shape[1], X.shape[0]

            def __init__(self):
                self.in_data = X.copy()
                self.out_data = Y.copy()
                self.in_dim = X.shape[1]
                self.out_dim = Y.shape[1]
    else:
        class DS(D.Dataset):
            _in_dim, _out_dim, _cardinality = X.shape[1], Y.shape[1], X.shape[0]

            def __init__(self):
                self.in_data = X.copy()
                self.out_data = Y.copy()
                super().__init__()

    DS.__name__ = name
    setattr(D, name, DS)
    return name


def remove_dataset(name):
    import vopy.datasets.dataset as D

    if hasattr(D, name):
        delattr(D, name)


def grid_inputs(n, d=2):
    """n well-separated input points in [0,1]^d (distinct rows; nearest-neighbour lookup is exact)."""
    k = int(np.ceil(n ** (1.0 / d)))
    pts = np.array(list(itertools.product(np.linspace(0, 1, max(k, 2)), repeat=d)))[:n]
    return pts


class RecordingProblem:
    """Recording proxy at the client boundary: logs every request and stamps every returned value
    with a unique low-order perturbation so an observation found later in a model's data identifies
    the request that produced it."""

    def __init__(self, inner, stamp=True):
        self._inner = inner
        self.log = []  # dicts: seq, x, evaluation_index, y
        self.stamp = stamp
        self._seq = 0
        self.fault = None  # optional callable(seq) -> raise
        self._handed_out = []  # arrays returned to the algorithm; poisoned later to expose retained views

    def __getattr__(self, name):
        return getattr(self._inner, name)

    def poison_handed_out(self):
        """the caller 're-uses its buffers': whoever kept a view of a returned observation array now sees NaN"""
        for arr in self._handed_out:
            arr[...] = np.nan
        self._handed_out = []

    def evaluate(self, x, *a, **k):
        self.poison_handed_out()
        y = self._inner.evaluate(x, *a, **k)
        y = np.array(y, float, copy=True)
        if self.stamp and y.size:
            flat = y.reshape(-1)
            # unique stamps: seq-dependent perturbation <= 1e-9
            stamps = (self._seq * 1000 + np.arange(flat.size) + 1) * 1e-15
            flat += stamps
            y = flat.reshape(y.shape)
        ei = a[0] if a else k.get("evaluation_index")
        self.log.append({"seq": self._seq, "x": np.array(x, float, copy=True),
                         "evaluation_index": None if ei is None else np.array(ei).copy(), "y": y.copy()})
        self._seq += 1
        self._handed_out.append(y)
        return y
