"""C07 — samples go to the acquisition maximiser among active designs and reach the model.

Recording proxy on algorithm.problem (requests, uniquely stamped returns), logger on
AcquisitionStrategy.__call__ (every value table) and on the two discrete optimisers; offline
checker: picks = arg-max of the logged tables, distinct, non-increasing; tables recomputed from the
pre-step state for the deterministic rules; model data delta = exactly the stamped observations.
The two optimisers are also driven directly with arbitrary value tables."""
from __future__ import annotations

import numpy as np

from vmon import gen, runchecks, runs
from vmon.core import case_hash

RULE = (
    "every evaluation of stub-driven and controlled runs of all algorithms that sample (batch 1..8 incl. > active "
    "set, cost vectors, K=1..12, all active-set shapes reached); plus direct calls of optimize_acqf_discrete / "
    "optimize_decoupled_acqf_discrete on arbitrary value tables (ties, negatives, q up to and above the table size). "
    "One event per requested evaluation / per direct optimiser call. distinct = (case seed, round, design, objective); "
    "non-trivial = every request (each is compared with the arg-max oracle)."
)
ASSUMPTIONS = ["Thompson-entropy tables are random: only the table-level arg-max is judged for DecoupledGP",
               "ties within 1e-12 are accepted in any order"]
N = {"quick": 150, "thorough": 5000}
REQUIRE = {"quick": {"runs_reaching_200_rounds": 4, "evaluations_observed": 1500, "tables_checked": 800, "rule_values_checked": 1500, "data_delta_checked": 600,
                     "direct_joint_calls": 300, "direct_decoupled_calls": 300, "bandit_rounds": 100, "tie_tables": 100, "ad_sample_steps": 10, "ad_refine_steps": 10, "real_model_runs": 40, "rounds_with_non_ascending_active_set_order": 2, "batches_with_descending_objective_labels": 10}}
TIMEOUT = {"quick": 1500, "thorough": 14400}
ALL = ["PaVeBa", "PaVeBaGP-IH", "PaVeBaGP-DE", "PartialGP-rect", "PartialGP-ell", "VOGP", "EpsilonPAL", "Auer", "DecoupledGP", "VOGP", "PartialGP-rect"]


class TableAcq:
    """acquisition defined by an explicit value table over design rows (keyed by the first coordinate)."""

    def __init__(self, table, out_dim=None):
        self.table = table  # dict: (row id, evaluation_index or None) -> value
        self.out_dim = out_dim
        self.evaluation_index = None
        self.costs = None
        self.calls = 0

    def __call__(self, x):
        self.calls += 1
        return np.array([self.table[(int(r[0]), self.evaluation_index)] for r in x], float)


def direct_optimisers(mon, rng):
    from vopy.acquisition import optimize_acqf_discrete, optimize_decoupled_acqf_discrete

    n = int(rng.integers(1, 9))
    choices = np.hstack([np.arange(n)[:, None].astype(float), rng.random((n, 2))])
    style = str(rng.choice(["generic", "ties", "negative", "constant"]))
    # the unit of the acquisition values is arbitrary (variances of objectives measured in tiny or huge units): the arg-max is not
    unit = float(rng.choice([1.0, 1.0, 1e-13, 1e-30, 1e9]))
    if unit != 1.0:
        mon.count("tables_in_tiny_or_huge_units")
    tol = 1e-12 * unit

    def draw(size):
        if style == "ties":
            return rng.integers(0, 3, size=size).astype(float) * unit
        if style == "negative":
            return (-np.abs(rng.normal(size=size)) - 1) * unit
        if style == "constant":
            return np.zeros(size)
        return rng.normal(size=size) * unit
    if style in ("ties", "constant"):
        mon.count("tie_tables")
    q = int(rng.choice([1, 2, n, n + 2, max(1, n - 1)]))
    # joint
    vals = draw(n)
    acq = TableAcq({(i, None): v for i, v in enumerate(vals)})
    case = {"values": vals, "q": q, "style": style}
    try:
        cands, got = optimize_acqf_discrete(acq, q, choices.copy())
    except Exception as e:
        mon.violation(f"acq:optimiser-crash:{type(e).__name__}", f"optimize_acqf_discrete(q={q}, n={n}) raised {e!r}", case)
        return
    mon.count("direct_joint_calls")
    mon.event(case_hash("dj", vals, q), True, f"direct/joint/{style}")
    ids = [int(r[0]) for r in np.atleast_2d(cands)]
    want = sorted(vals, reverse=True)[: min(q, n)]
    if len(ids) != min(q, n) or len(set(ids)) != len(ids):
        mon.violation("acq:batch-size" if len(ids) != min(q, n) else "acq:duplicate-in-batch", f"direct joint: picks {ids} for q={q}, n={n}", case)
    elif np.abs(np.asarray(got) - np.asarray(want)).max() > tol or np.abs(vals[ids] - np.asarray(got)).max() > tol:
        mon.violation("acq:not-argmax", f"direct joint: values {got} for picks {ids}, top-q of the table {want}", case)
    if not np.array_equal(np.atleast_2d(cands), choices[ids]):
        mon.violation("acq:candidate-rows-altered", "returned rows differ from the offered rows", case)
    # decoupled
    m = int(rng.integers(2, 4))
    tv = draw((n, m))
    acq = TableAcq({(i, k): tv[i, k] for i in range(n) for k in range(m)}, out_dim=m)
    acq.evaluation_index = 7
    case = {"values": tv, "q": q, "style": style}
    try:
        cands, got, ei = optimize_decoupled_acqf_discrete(acq, q, choices.copy())
    except Exception as e:
        mon.violation(f"acq:optimiser-crash:{type(e).__name__}", f"optimize_decoupled_acqf_discrete(q={q}, n={n}, m={m}) raised {e!r}", case)
        return
    mon.count("direct_decoupled_calls")
    mon.event(case_hash("dd", tv, q), True, f"direct/decoupled/{style}")
    pairs = [(int(r[0]), int(k)) for r, k in zip(np.atleast_2d(cands), ei)]
    want = sorted(tv.reshape(-1), reverse=True)[: min(q, n * m)]
    if acq.evaluation_index != 7:
        mon.violation("acq:evaluation-index-not-restored", f"acquisition evaluation_index left at {acq.evaluation_index}", case)
    if len(pairs) != min(q, n * m) or len(set(pairs)) != len(pairs):
        mon.violation("acq:batch-size" if len(pairs) != min(q, n * m) else "acq:duplicate-in-batch", f"direct decoupled: pairs {pairs} for q={q}, n={n}, m={m}", case)
    elif np.abs(np.asarray(got) - np.asarray(want)).max() > tol or any(abs(tv[i, k] - g) > tol for (i, k), g in zip(pairs, got)):
        mon.violation("acq:not-argmax", f"direct decoupled: values {got} for pairs {pairs}, top-q of the table {want}", case)


class ContentAcq:
    """acquisition value is a function of the row's content: identical rows tie exactly"""

    def __init__(self, w):
        self.w = w

    def __call__(self, x):
        return np.asarray(x, float) @ self.w


def direct_duplicate_rows(mon, rng):
    from vopy.acquisition import optimize_acqf_discrete

    n = int(rng.integers(3, 8))
    rows = rng.integers(0, 4, size=(n, 2)).astype(float)
    rows[int(rng.integers(n))] = rows[int(rng.integers(n))]
    i, j = rng.choice(n, size=2, replace=False)
    rows[i] = rows[j] = rows.max(0) + 1  # the two best choices are identical rows
    w = np.array([1.0, 0.37])
    q = int(rng.integers(2, n + 1))
    vals = rows @ w
    try:
        cands, got = optimize_acqf_discrete(ContentAcq(w), q, rows.copy())
    except Exception as e:
        mon.violation(f"acq:optimiser-crash:{type(e).__name__}", f"duplicate rows: {e!r}", {"rows": rows, "q": q})
        return
    mon.count("direct_duplicate_row_calls")
    mon.event(case_hash("dup", rows, q), True, "direct/duplicate-rows")
    want = np.sort(vals)[::-1][:q]
    got = np.asarray(got, float)
    if len(got) != q or np.abs(got - want).max() > 1e-12:
        mon.violation("acq:not-argmax", f"identical choice rows: batch values {got.tolist()}, top-{q} of the table {want.tolist()}", {"rows": rows, "q": q})


def make(rng, variant):
    over = {"K": int(rng.integers(1, 13)), "contraction": float(rng.choice([4, 8, 32]))}
    info = runs.VARIANTS[variant]
    if info.get("batch"):
        over["batch"] = int(rng.choice([1, 2, 3, 5, 8, over["K"] + 1]))
    over["allow_Kgtm"] = variant not in ("PaVeBaGP-IH", "PartialGP-rect")
    if variant.startswith("PartialGP") and rng.random() < 0.7:
        m = 2 if rng.random() < 0.7 else 3
        over["m"] = m
        over["costs"] = [float(c) for c in rng.choice([1.0, 2.0, 3.0, 0.5], size=m)]
        if rng.random() < 0.4:
            over["budget"] = float(rng.choice([8, 20, 60]))
    if variant == "DecoupledGP":
        m = 2
        over.update(m=m, costs=[float(c) for c in rng.choice([1.0, 2.0, 3.0], size=m)], budget=float(rng.choice([6, 15])),
                    K=max(2, over["K"]))
        over["batch"] = int(rng.choice([1, 2, 3]))
    if variant in ("PaVeBa", "Auer"):
        over["contraction"] = float(rng.choice([8, 32]))
    case, order = runs.make_case(rng, variant, **over)
    case["max_rounds"] = 60
    return case, order


def ad_run(mon, rng):
    case, order = runs.make_ad_case(rng)
    case["max_rounds"] = 60
    tr = runs.run_ad_case(case, order, mon)
    mon.count("vogp_ad_runs")
    for st in tr.steps:
        if st["crash"] is None and not st.get("after_completion"):
            runchecks.check_acquisition_ad(mon, tr, st)


def real_model_run(mon, rng):
    """the real GP wrapper classes (default hyper-parameters, no fitting) receive the data: batch >= 2, unequal costs,
    so that one batch mixes objectives in non-ascending order"""
    variant = str(rng.choice(["PartialGP-rect", "PartialGP-rect", "DecoupledGP", "VOGP", "PaVeBaGP-IH"]))
    over = {"K": int(rng.integers(3, 8)), "m": 2, "batch": int(rng.choice([2, 3, 4])), "cone_families": ["orthant", "theta"],
            "contraction": float(rng.choice([16, 64])), "model": "real-notrain"}
    if variant in ("PartialGP-rect", "DecoupledGP"):
        over["costs"] = [float(c) for c in rng.choice([1.0, 1.04, 1.5, 0.7], size=2)]
    if variant == "DecoupledGP":
        over["budget"] = float(rng.choice([6, 10]))
    case, order = runs.make_case(rng, variant, **over)
    case["noise_var"] = 1e-3 * case["scale"] ** 2
    case["max_rounds"] = 12
    tr = runs.run_case(case, order, mon, max_extra_steps=0)
    mon.count("real_model_runs")
    for st in tr.steps:
        if st["crash"] is None:
            runchecks.check_acquisition(mon, tr, st)
            ph = runchecks.phase(st, "evaluating")
            if ph is not None:
                reqs = tr.rec.log[ph["req_start"]:ph["req_end"]]
                for r in reqs:
                    ei = r["evaluation_index"]
                    if ei is not None and np.ndim(ei) and len(ei) > 1 and (np.diff(np.asarray(ei)) < 0).any():
                        mon.count("batches_with_descending_objective_labels")


def directed_set_order(mon):
    """bandit algorithms pair observations with designs through the iteration order of a SET of indices; with 10 designs and
    survivors {1, 8} that order is [8, 1], not ascending (seeded/C07d-paveba-sorted-points-set-order-adds)."""
    rng = np.random.default_rng(707)
    assert list({8, 1}) == [8, 1]
    for variant in ("PaVeBa", "Auer"):
        mu = np.array([[-3.0 - 0.1 * i, -3.0 - 0.05 * i] for i in range(10)])
        mu[1] = [0.0, 0.004]
        mu[8] = [0.004, 0.0]  # two incomparable near-ties survive; everybody else is far below
        case, order = runs.make_case(rng, variant, m=2, K=10, mu=mu, eps=0.0005, scale=1.0, cone_families=["orthant"],
                                     contraction=64.0, noise_var=0.01, obs_mode="controlled")
        case["max_rounds"] = 6
        tr = runs.run_case(case, order, mon, max_extra_steps=0)
        for st in tr.steps:
            if st["crash"] is None:
                runchecks.check_acquisition(mon, tr, st)
                act = st["pre"][0] | (st["pre"][2] or set())
                if len(act) >= 2 and list(act) != sorted(act):
                    mon.count("rounds_with_non_ascending_active_set_order")


LONG = ["Auer", "PaVeBaGP-IH", "VOGP", "Auer-emp", "EpsilonPAL", "PartialGP-rect", "PaVeBaGP-DE", "PaVeBa"]


def long_run(mon, rng, k):
    """260-330 rounds of the same few designs (anything periodic in the round counter is passed several times)"""
    variant = LONG[k % len(LONG)]
    case, order = runs.long_case(rng, variant)
    tr = runs.run_case(case, order, mon, max_extra_steps=0)
    mon.count("runs")
    mon.count("long_runs")
    for st in tr.steps:
        if st["crash"] is None:
            runchecks.check_acquisition(mon, tr, st)


def shard(mon, tier, rng, shard_no, nshards):
    for j in range(1 if tier == "quick" else 4):
        if tier == "thorough" or shard_no % 2 == 0:
            long_run(mon, rng, shard_no // 2 + j)
    n = max(len(ALL), N[tier] // nshards)
    if shard_no == 2 % nshards:
        directed_set_order(mon)
    for _ in range(3 if tier == "quick" else 20):
        real_model_run(mon, rng)
    for _ in range(2 if tier == "quick" else 8):
        ad_run(mon, rng)
    for it in range(n):
        variant = ALL[(it + shard_no) % len(ALL)]
        case, order = make(rng, variant)
        if tier == "thorough" and it % 20 == 7 and runs.VARIANTS[variant]["algo"] in ("VOGP", "EpsilonPAL", "PaVeBaGP", "PaVeBaPartialGP"):
            # the real GP wrapper, fitted by the real factory helper on the K designs: standardised values, enough designs and a
            # noise level for which the fit is well conditioned (a degenerate fit is detected and skipped by run_case)
            case, order = runs.make_case(rng, variant, K=int(rng.integers(8, 13)), scale=1.0, ds_family="random", noise_var=0.01, eps=0.3,
                                         contraction=16.0, model="real", allow_Kgtm=False, batch=int(rng.choice([1, 2])))
            case["max_rounds"] = 40
            mon.count("real_model_runs")
        tr = runs.run_case(case, order, mon, max_extra_steps=0)
        if tr.ctor_crash or tr.crashed:
            mon.count("crashed_runs")  # crashes are C06's business
        for st in tr.steps:
            if st["crash"] is None:
                runchecks.check_acquisition(mon, tr, st)
        if len(mon.samples) < 3 and tr.steps:
            st = tr.steps[0]
            reqs = tr.rec.log[st["req_start"]:st["req_end"]]
            mon.sample({"variant": variant, "K": case["K"], "batch": case["batch"], "first_request_x": reqs[0]["x"] if reqs else None,
                        "first_request_index": reqs[0]["evaluation_index"] if reqs else None})
        for _ in range(6):
            direct_optimisers(mon, rng)
        direct_duplicate_rows(mon, rng)


def replay(mon, rec):
    def chk(mon, tr):
        for st in tr.steps:
            if st["crash"] is None:
                runchecks.check_acquisition(mon, tr, st)
    if rec["case"].get("variant") == "VOGP_AD":
        def chk_ad(mon, tr):
            for st in tr.steps:
                if st["crash"] is None and not st.get("after_completion"):
                    runchecks.check_acquisition_ad(mon, tr, st)
        runs.replay_runs(mon, rec, chk_ad)
        return
    if "variant" not in rec["case"]:
        print("direct optimiser case:", rec["case"])
        return
    runs.replay_runs(mon, rec, chk)
