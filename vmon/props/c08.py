"""C08 — NaiveElimination with its default sample count is (epsilon, delta)-PAC; P is the Pareto set of the means.

(a) closed form: algorithm.L is read from real objects built on two-design instances whose gap is
    eps(1+eta) along a swept cone direction (and incomparable instances eps(1+eta) away from covering);
    the failure event is an orthant event of a bivariate normal, computed with scipy and compared to delta.
(b) statistical: real runs with real noise; failures counted against the 1-1e-9 quantile of Binomial(N, delta).
(c) P after every round equals the brute-force Pareto set of the per-design means of the logged observations."""
from __future__ import annotations

import numpy as np

from vmon import gen, stubs
from vmon.core import case_hash
from vmon.oracles import geometry as G

RULE = (
    "noise variance 1e-3..4, epsilon 0.005..0.5, delta 0.01..0.3, theta 20..170 deg; two-design instances "
    "with gap eps*(1+eta) (eta 0.01..1) along directions swept across the cone, incomparable instances "
    "eps*(1+eta) from covering; K in {2,3,5} for the statistical channel; K up to 8 and all cone families for "
    "the P-is-Pareto-of-means channel. One event per configuration / run / round. distinct = hash(config); "
    "non-trivial = closed-form failure probability > 1e-300 or run with >=2 rounds."
)
ASSUMPTIONS = ["closed form uses scipy.stats.multivariate_normal.cdf (bivariate orthant probability)",
               "statistical channel: false-alarm budget 1e-9 per configuration",
               "default L requires a theta cone (ordering complexity beta is only defined there)"]
N = {"quick": 64, "thorough": 2000}
REQUIRE = {"quick": {"closed_form_configs": 500, "noise_below_one": 200, "noise_above_one": 60, "incomparable_configs": 100,
                     "stat_runs": 600, "pareto_of_means_rounds": 300, "long_pareto_of_means_runs": 20, "closed_form_many_designs": 100}}
TIMEOUT = {"quick": 1200, "thorough": 5400}


def build(name, order, eps, delta, noise_var, L=None):
    from vopy.algorithms import NaiveElimination

    return NaiveElimination(epsilon=eps, delta=delta, dataset_name=name, order=order, noise_var=noise_var, L=L)


def orthant_prob(mean, cov):
    """P(Z >= 0) for Z ~ N(mean, cov) (2-D)."""
    from scipy.stats import multivariate_normal, norm

    mean = np.asarray(mean, float)
    cov = np.asarray(cov, float)
    s = np.sqrt(np.diag(cov))
    rho = cov[0, 1] / (s[0] * s[1])
    if abs(abs(rho) - 1) < 1e-12:
        # degenerate: both functionals proportional
        z = mean / s
        return float(norm.cdf(z.min())) if rho > 0 else float(max(0.0, norm.cdf(z[0]) + norm.cdf(z[1]) - 1))
    return float(multivariate_normal(mean=-mean, cov=cov, allow_singular=True).cdf(np.zeros(2)))


def closed_form(mon, rng):
    theta = float(rng.choice([20, 30, 45, 60, 75, 90, 110, 135, 150, 170]))
    order = gen.make_order("theta", theta=theta)
    W = order.ordering_cone.W
    a_or, _, _ = G.cone_alpha(W)
    noise_var = float(10 ** rng.uniform(-3, np.log10(4)))
    eps = float(10 ** rng.uniform(np.log10(0.005), np.log10(0.5)))
    delta = float(10 ** rng.uniform(-2, np.log10(0.3)))
    eta = float(10 ** rng.uniform(-2, 0))
    kind = "dominated" if rng.random() < 0.7 else "incomparable"
    half = np.radians(theta) / 2
    if kind == "dominated":
        # direction inside the cone, swept from the axis to near a facet
        phi = np.pi / 4 + rng.uniform(-0.98, 0.98) * half
        u = np.array([np.cos(phi), np.sin(phi)])
        g0 = G.small_m(W, a_or, np.zeros(2), u)
        d = u * (eps * (1 + eta) / g0)  # gap of design 0 is exactly eps(1+eta)
    else:
        # direction outside +-C; scaled so that the cover distance is eps(1+eta)
        if theta >= 178:
            return
        phi = np.pi / 4 + half + rng.uniform(0.05, 0.95) * (np.pi - 2 * half)
        u = np.array([np.cos(phi), np.sin(phi)])
        dist, lb, _ = G.eps_cover_distance(W, np.zeros(2), u)  # is 0 covered by u ? need u+c >= 0
        dist2, _, _ = G.eps_cover_distance(W, u, np.zeros(2))
        dm = min(dist, dist2)
        if dm <= 1e-9:
            return
        d = u * (eps * (1 + eta) / dm)
        mon.count("incomparable_configs")
    mu = np.array([[0.0, 0.0], d])
    name = stubs.install_dataset(stubs.grid_inputs(2, 1), mu, exact=True)
    try:
        alg = build(name, order, eps, delta, noise_var)
    finally:
        stubs.remove_dataset(name)
    L = int(alg.L)
    cov = (2 * noise_var / L) * (W @ W.T)
    if kind == "dominated":
        p_fail = 1.0 - orthant_prob(W @ d, cov)
    else:
        p_fail = orthant_prob(W @ d, cov) + orthant_prob(-(W @ d), cov)
    mon.count("closed_form_configs")
    mon.count("noise_below_one" if noise_var < 1 else "noise_above_one")
    mon.event(case_hash("cf", theta, noise_var, eps, delta, eta, kind), p_fail > 1e-300, f"closed/{kind}/theta{theta:g}")
    mon.stat_max("worst_pfail_over_delta", p_fail / delta)
    case = {"theta": theta, "noise_var": noise_var, "epsilon": eps, "delta": delta, "eta": eta, "kind": kind, "L": L, "mu": mu}
    if L < 1:
        mon.violation("naive:L-not-positive", f"L={L}", case)
    if p_fail > delta * (1 + 1e-6):
        mon.violation("naive:pac-closed-form", f"{kind} instance, theta={theta:g}, noise_var={noise_var:.4g}, eps={eps:.4g}, delta={delta:.3g}: "
                      f"default L={L} gives failure probability {p_fail:.4g} > delta", case)
    if len(mon.samples) < 2:
        mon.sample({**case, "p_fail": p_fail})


def closed_form_many(mon, rng):
    """K designs = K/2 far-apart pairs, each pair with gap eps(1+eta); pairs are mutually incomparable, their noise is
    independent, so P(fail) >= 1 - prod(1 - p_pair): a rigorous lower bound from the real L for that K."""
    theta = float(rng.choice([45, 60, 90, 120]))
    order = gen.make_order("theta", theta=theta)
    W = order.ordering_cone.W
    a_or, _, _ = G.cone_alpha(W)
    K = int(rng.choice([8, 16, 32, 64]))
    noise_var = float(10 ** rng.uniform(-2, 0.5))
    eps = float(np.sqrt(noise_var) * 10 ** rng.uniform(-0.5, 0.3))
    delta = float(rng.choice([0.05, 0.1, 0.3]))
    eta = float(10 ** rng.uniform(-2, -0.5))
    u = np.array([1.0, 1.0]) / np.sqrt(2)
    g0 = G.small_m(W, a_or, np.zeros(2), u)
    d = u * (eps * (1 + eta) / g0)
    off = np.array([-1.0, 1.0]) * (np.linalg.norm(d) + eps) * 50
    mu = np.vstack([np.vstack([j * off, j * off + d]) for j in range(K // 2)])
    name = stubs.install_dataset(stubs.grid_inputs(K, 2), mu, exact=True)
    try:
        alg = build(name, order, eps, delta, noise_var)
    finally:
        stubs.remove_dataset(name)
    L = int(alg.L)
    cov = (2 * noise_var / L) * (W @ W.T)
    p_pair = 1.0 - orthant_prob(W @ d, cov)
    p_fail_lb = 1.0 - (1.0 - p_pair) ** (K // 2)
    mon.count("closed_form_many_designs")
    mon.event(case_hash("cfK", theta, K, noise_var, eps, delta, eta), p_fail_lb > 1e-300, f"closed-many/K{K}/theta{theta:g}")
    mon.stat_max("worst_pfail_over_delta_many_designs", p_fail_lb / delta)
    if p_fail_lb > delta * (1 + 1e-6):
        mon.violation("naive:pac-closed-form", f"{K} designs ({K // 2} independent pairs with gap {1 + eta:.3f} eps), theta={theta:g}, noise_var={noise_var:.4g}, "
                      f"eps={eps:.4g}, delta={delta:.3g}: default L={L} gives failure probability >= {p_fail_lb:.4g} > delta",
                      {"theta": theta, "K": K, "noise_var": noise_var, "epsilon": eps, "delta": delta, "eta": eta, "L": L})


def is_success(W, a_or, mu, P, eps):
    """(eps,delta)-PAC success: no design in P with gap > eps; every Pareto-optimal design eps-covered by P."""
    gaps = G.gaps(W, a_or, mu)
    P = list(P)
    if any(gaps[p] > eps * (1 + 1e-9) for p in P):
        return False
    D = (mu[:, None, :] - mu[None, :, :]) @ W.T
    weak = (D >= 0).all(-1)
    same = (mu[:, None, :] == mu[None, :, :]).all(-1)
    strict = weak & ~same
    pareto = np.nonzero(~strict.any(axis=0))[0]
    for i in pareto:
        if not any(G.eps_cover_distance(W, mu[i], mu[j])[0] <= eps * (1 + 1e-9) for j in P):
            return False
    return True


def statistical(mon, rng, nruns):
    from scipy.stats import binom

    theta = float(rng.choice([30, 60, 90, 120, 150]))
    order = gen.make_order("theta", theta=theta)
    W = order.ordering_cone.W
    a_or, _, _ = G.cone_alpha(W)
    K = int(rng.choice([2, 2, 3, 5]))
    delta = float(rng.choice([0.05, 0.1, 0.3]))
    # keep the default L small enough to run: sigma/eps in [0.2, 1.2]
    eps = float(10 ** rng.uniform(-2, -0.5))
    sigma = eps * float(rng.uniform(0.2, 1.2))
    noise_var = sigma**2
    # instance: a chain with gaps just above eps plus incomparable points
    half = np.radians(theta) / 2
    mu = [np.zeros(2)]
    for k in range(1, K):
        phi = np.pi / 4 + rng.uniform(-0.9, 0.9) * half
        u = np.array([np.cos(phi), np.sin(phi)])
        g0 = G.small_m(W, a_or, np.zeros(2), u)
        step = u * (eps * (1 + rng.uniform(0.02, 0.5)) / g0)
        base = mu[int(rng.integers(len(mu)))]
        mu.append(base + step if rng.random() < 0.7 else base + np.array([-1, 1]) * eps * rng.uniform(2, 4))
    mu = np.array(mu)
    name = stubs.install_dataset(stubs.grid_inputs(K, 1), mu, exact=True)
    fails = 0
    L = None
    try:
        for r in range(nruns):
            np.random.seed(int(rng.integers(2**31)))
            alg = build(name, order, eps, delta, noise_var)
            L = int(alg.L)
            if L > 3000:
                mon.count("stat_config_too_long")
                return
            steps = 0
            while not alg.run_one_step():
                steps += 1
                if steps > L + 5:
                    mon.violation("naive:does-not-stop", f"no completion after {steps} rounds, L={L}", {"L": L})
                    return
            fails += not is_success(W, a_or, mu, alg.P, eps)
            mon.count("stat_runs")
    finally:
        stubs.remove_dataset(name)
    thr = int(binom.ppf(1 - 1e-9, nruns, delta))
    mon.event(case_hash("st", theta, K, eps, noise_var, delta, mu), True, f"stat/K{K}/theta{theta:g}")
    mon.stat_max("worst_failfrac_over_delta", fails / nruns / delta)
    if fails > thr:
        mon.violation("naive:pac-statistical", f"{fails}/{nruns} failed runs (delta={delta}, threshold {thr}); theta={theta:g}, K={K}, "
                      f"noise_var={noise_var:.4g}, eps={eps:.4g}, L={L}", {"mu": mu, "theta": theta, "eps": eps, "noise_var": noise_var, "delta": delta})


def pareto_of_means(mon, rng):
    m = int(rng.choice([2, 2, 3]))
    label, order = gen.random_order(rng, m)
    W = order.ordering_cone.W
    K = int(rng.integers(1, 9))
    mu = rng.normal(size=(K, m))
    if K >= 2 and rng.random() < 0.3:
        mu[1] = mu[0]
    L = int(rng.integers(1, 12)) if rng.random() < 0.7 else int(rng.integers(55, 130))  # long runs: all observations must keep counting
    if L > 50:
        mon.count("long_pareto_of_means_runs")
        mu = mu * 0.05  # near-ties, so that the set is sensitive to how the means are formed
    noise_var = float(10 ** rng.uniform(-3, 0.5))
    name = stubs.install_dataset(stubs.grid_inputs(K, 2), mu, exact=True)
    try:
        alg = build(name, order, 0.1, 0.1, noise_var, L=L)
    finally:
        stubs.remove_dataset(name)
    rec = stubs.RecordingProblem(alg.problem, stamp=False)
    alg.problem = rec
    np.random.seed(int(rng.integers(2**31)))
    for r in range(L):
        done = alg.run_one_step()
        obs = np.stack([e["y"] for e in rec.log], axis=1)  # (K, rounds, m)
        means = obs.mean(axis=1)
        D = (means[:, None, :] - means[None, :, :]) @ W.T
        weak = (D >= -0.0).all(-1)
        same = (means[:, None, :] == means[None, :, :]).all(-1)
        strict = weak & ~same
        close = (np.abs(D) < 1e-12).any(-1) & ~same
        nd = sorted(np.nonzero(~strict.any(axis=0))[0].tolist())
        mon.count("pareto_of_means_rounds")
        mon.event(case_hash("pm", mu, r, L), r >= 1, f"pmeans/{label}")
        if close.any():
            mon.count("inside_band")
            continue
        try:
            P = sorted(int(i) for i in alg.P)
        except Exception as e:
            mon.violation(f"naive:P-crash:{type(e).__name__}", repr(e), {"K": K, "round": r})
            break
        if P != nd:
            mon.violation("naive:P-not-pareto-of-means", f"{label}: after round {r + 1}: P={P}, Pareto set of the sample means={nd}",
                          {"W": W, "means": means, "round": r + 1})
        if done != (r + 1 == L):
            mon.violation("naive:completion-flag", f"round {r + 1} of {L}: run_one_step returned {done}", {"L": L})


def shard(mon, tier, rng, shard_no, nshards):
    n = max(4, N[tier] // nshards)
    for it in range(n):
        for _ in range(12):
            closed_form(mon, rng)
        for _ in range(3):
            closed_form_many(mon, rng)
        for _ in range(4):
            pareto_of_means(mon, rng)
    for _ in range(1 if tier == "quick" else 8):
        statistical(mon, rng, 60 if tier == "quick" else 300)
