"""C16 — the empirical model reports per-design running statistics of all samples.

Shadow accumulator {design -> list of rows} updated from the same operation stream; compared at
quiescent points (after update()), which is where the model's statistics are defined to be current."""
from __future__ import annotations

import numpy as np

from vmon.core import case_hash

RULE = (
    "random interleavings of add_sample (lists, sets, arrays, repeated indices, single rows, out-of-range "
    "indices), update, clear_data, tracking-flag toggles (as Auer does) and predict on random index "
    "subsets, for design counts 1..12, m=1..4, unique sample values. One event = one predict comparison "
    "or one rejected add. distinct = hash(history length, indices, values); non-trivial = the store is non-empty."
)
ASSUMPTIONS = ["statistics are compared after update(); mean/var recomputed with numpy float64 from the shadow rows (rtol 1e-9)"]
N = {"quick": 320, "thorough": 60000}
REQUIRE = {"quick": {"predict_events": 3000, "reject_events": 200, "var_two_plus": 500, "var_below_two": 500,
                     "untracked_events": 300, "set_adds": 200, "repeat_adds": 200, "clears": 100, "long_histories": 10}}
TIMEOUT = {"quick": 600, "thorough": 3600}


def history(mon, rng, length, long=False):
    from vopy.models import EmpiricalMeanVarModel

    K = int(rng.integers(1, 4)) if long else int(rng.integers(1, 13))
    m = int(rng.integers(1, 5))
    d = int(rng.integers(1, 4))
    noise_var = float(10 ** rng.uniform(-3, 1))
    tm = bool(rng.random() < 0.85)
    tv = bool(rng.random() < 0.7)
    model = EmpiricalMeanVarModel(d, m, noise_var, K, track_means=tm, track_variances=tv)
    shadow = {i: [] for i in range(K)}
    counter = [0]
    ops = []

    def fresh(n):
        # unique values: every sample identifies itself
        base = counter[0]
        counter[0] += n
        return (np.arange(base, base + n)[:, None] * 1.0 + rng.normal(size=(n, m)) * 0.3) * rng.choice([1e-2, 1.0, 30.0])

    def compare():
        model.update()
        nq = int(rng.integers(1, K + 1))
        idx = rng.integers(K, size=nq)
        X = np.hstack([rng.normal(size=(nq, d)), idx[:, None].astype(float)])
        try:
            means, variances = model.predict(X)
        except Exception as e:
            mon.violation(f"empirical:predict-crash:{type(e).__name__}", f"{e!r} after ops {ops[-6:]}", {"ops": ops[-20:]})
            return
        means, variances = np.asarray(means), np.asarray(variances)
        case = {"K": K, "m": m, "track_means": model.track_means, "track_variances": model.track_variances,
                "ops_tail": ops[-12:], "query": idx}
        nonempty = any(len(v) for v in shadow.values())
        mon.event(case_hash("p", len(ops), idx, counter[0]), nonempty, f"K{K}/m{m}/tm{int(model.track_means)}tv{int(model.track_variances)}")
        mon.count("predict_events")
        if means.shape != (nq, m) or variances.shape != (nq, m, m):
            mon.violation("empirical:shape", f"shapes {means.shape} {variances.shape}", case)
            return
        for q, i in enumerate(idx):
            rows = np.array(shadow[int(i)]).reshape(-1, m)
            if model.track_means:
                exp_mean = rows.mean(axis=0) if len(rows) else np.zeros(m)
            else:
                exp_mean = np.zeros(m)
            if model.track_variances:
                if len(rows) >= 2:
                    mu = rows.mean(axis=0)
                    exp_var = np.diag(((rows - mu) ** 2).sum(axis=0) / len(rows))
                    mon.count("var_two_plus")
                else:
                    exp_var = np.eye(m) * noise_var
                    mon.count("var_below_two")
            else:
                exp_var = np.eye(m)
                mon.count("untracked_events")
            scale = 1e-9 * (1 + np.abs(rows).max() if len(rows) else 1)
            if not np.allclose(means[q], exp_mean, rtol=1e-9, atol=scale):
                mon.violation("empirical:mean", f"design {i}: n={len(rows)} mean {means[q]} expected {exp_mean}", case)
            if not np.allclose(variances[q], exp_var, rtol=1e-7, atol=scale**2 + 1e-12):
                mon.violation("empirical:variance", f"design {i}: n={len(rows)} var {np.diag(variances[q])} expected {np.diag(exp_var)}", case)

    for step in range(length):
        r = rng.random()
        if r < 0.5:
            form = str(rng.choice(["list", "set", "array", "repeat", "single"]))
            if form == "set":
                s = set(int(x) for x in rng.integers(K, size=int(rng.integers(1, K + 1))))
                idx_for_model = s
                order = list(s)
                mon.count("set_adds")
            elif form == "repeat":
                order = [int(x) for x in rng.integers(K, size=int(rng.integers(2, 2 * K + 2)))]
                if len(order) >= 2:
                    order[-1] = order[0]
                idx_for_model = list(order)
                mon.count("repeat_adds")
            elif form == "single":
                order = [int(rng.integers(K))]
                idx_for_model = list(order)
            elif form == "array":
                order = [int(x) for x in rng.permutation(K)[: int(rng.integers(1, K + 1))]]
                idx_for_model = np.array(order)
            else:
                order = [int(x) for x in rng.permutation(K)[: int(rng.integers(1, K + 1))]]
                idx_for_model = list(order)
            Y = fresh(len(order))
            ops.append(("add", form, order))
            try:
                handed = Y.copy()
                model.add_sample(idx_for_model, handed)
                handed[...] = np.nan  # the caller re-uses its buffer: the model must have taken its own copy
            except Exception as e:
                mon.violation(f"empirical:add-crash:{type(e).__name__}", f"{e!r} on {form} {order}", {"ops": ops[-10:]})
                continue
            for i, y in zip(order, Y):
                shadow[i].append(y.copy())
        elif r < 0.58:
            # out-of-range index: must be rejected and leave the store unchanged
            order = [int(x) for x in rng.integers(K, size=int(rng.integers(1, 4)))]
            bad = K + int(rng.integers(0, 3))
            order.insert(int(rng.integers(len(order) + 1)), bad)
            Y = fresh(len(order))
            before = [a.copy() for a in model.design_samples]
            ops.append(("add-bad", order))
            mon.count("reject_events")
            mon.event(case_hash("bad", order, len(ops)), True, "reject")
            try:
                model.add_sample(order, Y)
                mon.violation("empirical:out-of-range-accepted", f"index {bad} >= design_count {K} accepted", {"order": order, "K": K})
            except ValueError:
                pass
            except Exception as e:
                mon.violation(f"empirical:out-of-range-{type(e).__name__}", f"{e!r}", {"order": order, "K": K})
            after = model.design_samples
            if len(after) != len(before) or any(a.shape != b.shape or (a != b).any() for a, b in zip(after, before)):
                mon.violation("empirical:rejected-add-mutated-store", "store changed by a rejected add", {"order": order, "K": K})
        elif r < 0.64 and not long:
            model.clear_data()
            for k in shadow:
                shadow[k] = []
            ops.append(("clear",))
            mon.count("clears")
        elif r < 0.72:
            # toggle flags the way Auer does: off around a region update, on again, always followed by update()
            which = str(rng.choice(["means", "variances"]))
            if which == "variances":
                model.track_variances = not model.track_variances
            else:
                model.track_means = not model.track_means
            ops.append(("toggle", which))
            model.update()
        else:
            ops.append(("compare",))
            compare()
    compare()
    mon.stat_max("max_samples_per_design", max(len(v) for v in shadow.values()))
    if long:
        mon.count("long_histories")
    if len(mon.samples) < 2:
        mon.sample({"K": K, "m": m, "ops_head": ops[:8]})


def huge_model(mon, rng):
    """tens of thousands of designs (a fine grid): indices must not wrap or be truncated"""
    from vopy.models import EmpiricalMeanVarModel

    K = int(rng.choice([33000, 40000, 70000]))
    m = 2
    model = EmpiricalMeanVarModel(1, m, 0.5, K, track_variances=False)
    idx = sorted({int(i) for i in rng.integers(K, size=12)} | {K - 1, K - 2, 32767, 32768})
    Y = rng.normal(size=(len(idx), m)) + 10
    model.add_sample(idx, Y.copy())
    model.update()
    X = np.hstack([rng.random((len(idx), 1)), np.array(idx, float)[:, None]])
    means, _ = model.predict(X)
    mon.count("huge_design_count_models")
    mon.event(case_hash("huge", K, idx), True, "huge-design-count")
    if not np.allclose(means, Y, rtol=1e-12, atol=0):
        bad = [i for i, a, b in zip(idx, means, Y) if not np.allclose(a, b)]
        mon.violation("empirical:mean", f"{K} designs: designs {bad[:5]} report a mean that is not their sample", {"K": K, "idx": idx})


def shard(mon, tier, rng, shard_no, nshards):
    if shard_no % 4 == 0:
        huge_model(mon, rng)
    n = max(2, N[tier] // nshards)
    for _ in range(n):
        if rng.random() < 0.15:
            history(mon, rng, int(rng.integers(300, 700)), long=True)
        else:
            history(mon, rng, int(rng.integers(20, 200)))
