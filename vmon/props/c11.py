"""C11 — pessimistic rectangle comparison: sound for every cone, complete for 2x2 cones.

check_dominates(order, R1, R2) must be True only if every point of R1 dominates some point of
R2, i.e. every vertex v of R1 lies in R2 + C; for two-objective two-facet cones it must also be
True whenever that holds with margin > tau.  Oracle: per-vertex LP with primal/dual sandwich.
The two helpers (is_pt_in_extended_polytope, line_seg_pt_intersect_at_dim) are driven directly
too."""
from __future__ import annotations

import numpy as np

from vmon import gen, predicates as P
from vmon.core import TAU_LP, case_hash
from vmon.oracles import geometry as G

RULE = (
    "rectangle pairs (m=2: theta cones 3..177 deg and random 2x2 cones; m=2,3 with K>=m for "
    "soundness) in modes disjoint/overlap/nested/touching/identical/degenerate/needle at generic "
    "(non-lattice) and lattice coordinates; first box translated along a cone-interior direction so "
    "the per-vertex LP margin is +-gamma*scale. distinct = hash of rounded inputs; non-trivial = "
    "certified margin outside the band (completeness events only for 2x2 cones)."
)
ASSUMPTIONS = [
    "oracle: per-vertex HiGHS LP; primal witness z' and dual multiplier checked in numpy",
    "band 1e-6*(1+mag); completeness demanded only for cones with W of shape 2x2",
]
N = {"quick": 1500, "thorough": 60000}
REQUIRE = {"quick": {"complete_true_2x2": 300, "decisive_false": 300, "helper_pt_events": 300,
                     "helper_seg_events": 300, "sound_Kgtm_events": 100, "inrun_pess_events": 300, "far_translation_events": 200}}
TIMEOUT = {"quick": 900, "thorough": 10800}

THETAS = [3, 10, 20, 30, 45, 60, 75, 89, 90, 91, 105, 120, 135, 150, 170, 177]


def call_real(order, r1, r2, via):
    from vopy import confidence_region as CR

    if via == "dispatch":
        return CR.confidence_region_check_dominates(order, r1, r2)
    return type(r1).check_dominates(order, r1, r2)


def pair_case(mon, rng):
    r = rng.random()
    if r < 0.7:
        m = 2
        if rng.random() < 0.75:
            th = float(rng.choice(THETAS))
            label, order = f"theta{th:g}", gen.make_order("theta", theta=th)
        else:
            label, order = gen.random_order(rng, 2, families=["random", "orthant"], rowscale_p=0.15)
    else:
        m = int(rng.choice([2, 3]))
        label, order = gen.random_order(rng, m, families=["randomK", "icecream", "cone3d", "random"], rowscale_p=0.15)
    W = order.ordering_cone.W
    two_by_two = W.shape == (2, 2)
    mode = str(rng.choice(["disjoint", "overlap", "overlap", "nested", "nested", "touching", "identical",
                           "degenerate", "needle"]))
    lo2, hi2, lo1, hi1, mode, scale = gen.rect_pair(rng, m, mode)  # note: first/second swapped on purpose
    if rng.random() < 0.15:  # lattice coordinates
        q = scale / 4
        lo1, hi1, lo2, hi2 = [np.round(a / q) * q for a in (lo1, hi1, lo2, hi2)]
        hi1, hi2 = np.maximum(hi1, lo1), np.maximum(hi2, lo2)
        mode += "+lattice"
    d = gen.interior_dir(W)
    rates = W @ d

    def mfun(t):
        lo, hi = G.pess_dominates_margin(W, lo1 + t * d, hi1 + t * d, lo2, hi2)
        return 0.5 * (lo + hi)

    targets = [None] + [float(s * g * scale) for g in (0.3, 1e-1, 1e-2, 1e-3) for s in (1, -1) if rng.random() < 0.5]
    for tgt in targets:
        tau = 0.0 if tgt is None else gen.aim(mfun, None, rates, tgt, iters=6)
        l1, h1 = lo1 + tau * d, hi1 + tau * d
        lo, hi = G.pess_dominates_margin(W, l1, h1, lo2, hi2)
        mag = float(max(np.abs(l1).max(), np.abs(h1).max(), np.abs(lo2).max(), np.abs(hi2).max()))
        case = {"kind": "pess", "cone": label, "W": W, "lo1": l1, "hi1": h1, "lo2": lo2, "hi2": hi2, "mode": mode}
        via = "dispatch" if rng.random() < 0.5 else "classmethod"
        with np.errstate(all="ignore"):
            try:
                ans = call_real(order, P.mk_rect(l1, h1), P.mk_rect(lo2, hi2), via)
            except Exception as e:
                mon.violation(P.crash_mechanism(e), f"check_dominates raised {e!r}", case)
                continue
        h = case_hash("p", W, l1, h1, lo2, hi2)
        tb = TAU_LP * (1 + mag)
        if not two_by_two:
            mon.count("sound_Kgtm_events")
        res = P.judge(mon, "C11", "check_dominates", ans, lo, hi, tb, case, h,
                      f"{'2x2' if two_by_two else 'KxM'}/{label}/{mode}", demand_false_only=not two_by_two)
        if res == "held" and lo > tb and two_by_two:
            mon.count("complete_true_2x2")
        if len(mon.samples) < 3:
            mon.sample({**case, "oracle_margin": [lo, hi], "answer": bool(ans)})


def far_translation(mon, rng):
    """integer-cornered boxes judged at the origin by the oracle, then handed to the real predicate translated by t = 2^34..2^40
    times an integer vector (exact in float64): domination is translation invariant, so the decisive answer must not change for
    data far from the origin (values around 1e10-1e12 with widths around 1 — seeded/U06)"""
    th = float(rng.choice(THETAS))
    if rng.random() < 0.6:
        label, order = f"theta{th:g}", gen.make_order("theta", theta=th)
    else:
        label, order = gen.random_order(rng, 2, families=["random", "orthant"])
    W = order.ordering_cone.W
    m = 2
    lo1 = rng.integers(-8, 9, size=m).astype(float)
    hi1 = lo1 + rng.integers(0, 6, size=m)
    lo2 = rng.integers(-8, 9, size=m).astype(float)
    hi2 = lo2 + rng.integers(0, 6, size=m)
    lo, hi = G.pess_dominates_margin(W, lo1, hi1, lo2, hi2)
    if not (np.isfinite(lo) and np.isfinite(hi)) or (lo < 0.25 and hi > -0.25):
        mon.count("far_translation_base_not_decisive")
        return
    expected = lo >= 0.25
    t = float(2.0 ** int(rng.integers(34, 41))) * rng.integers(-3, 4, size=m)
    if not t.any():
        t[0] = 2.0 ** 36
    case = {"kind": "pess-far", "cone": label, "W": W, "lo1": lo1 + t, "hi1": hi1 + t, "lo2": lo2 + t, "hi2": hi2 + t, "t": t, "base_margin": [lo, hi]}
    with np.errstate(all="ignore"):
        try:
            base = bool(call_real(order, P.mk_rect(lo1, hi1), P.mk_rect(lo2, hi2), "classmethod"))
            ans = bool(call_real(order, P.mk_rect(lo1 + t, hi1 + t), P.mk_rect(lo2 + t, hi2 + t), "classmethod"))
        except Exception as e:
            mon.violation(P.crash_mechanism(e), f"check_dominates raised {e!r} on translated boxes", case)
            return
    mon.count("far_translation_events")
    mon.event(case_hash("far", W, lo1, hi1, lo2, hi2, t), True, f"far/{label}")
    if base != expected:
        mon.violation(f"check_dominates:wrong-{'false' if expected else 'true'}:pess", f"integer boxes at the origin: returned {base}, oracle margin [{lo:.4g},{hi:.4g}]", case)
    elif ans != expected:
        mon.violation("check_dominates:not-translation-invariant", f"returned {base} at the origin (oracle margin [{lo:.4g},{hi:.4g}]) but {ans} after "
                      f"an exact translation by {t.tolist()}", case)


def helper_pt_case(mon, rng):
    """is_pt_in_extended_polytope(pt, verts): True iff exists p in conv(verts), p <= pt
    (>= with invert_extension).  Sound in every dimension; complete for planar parallelograms."""
    from vopy.utils import is_pt_in_extended_polytope

    dim = int(rng.choice([2, 2, 3]))
    scale = gen.rand_scale(rng)
    if dim == 2:
        th = float(rng.choice(THETAS))
        W = gen.make_order("theta", theta=th).ordering_cone.W
        lo, hi, _, _, _, _ = gen.rect_pair(rng, 2, "overlap")
        verts = G.rect_vertices(lo, hi) @ W.T
    else:
        verts = rng.normal(size=(int(rng.integers(3, 9)), dim)) * scale
    invert = bool(rng.random() < 0.3)
    c = verts.mean(axis=0)
    pt = c + rng.normal(size=dim) * scale * rng.choice([0.1, 1.0, 3.0])
    # oracle LP: max t s.t. sign*(pt - sum lam v) >= t, lam in simplex
    from scipy.optimize import linprog

    n = len(verts)
    sgn = -1.0 if invert else 1.0
    A = np.hstack([sgn * verts.T, np.ones((dim, 1))])
    res = linprog(np.r_[np.zeros(n), -1.0], A_ub=A, b_ub=sgn * pt, A_eq=[np.r_[np.ones(n), 0.0]], b_eq=[1.0],
                  bounds=[(0, None)] * n + [(None, None)], method="highs")
    if res.status != 0:
        mon.count("oracle_gave_up")
        return
    lam = np.clip(res.x[:n], 0, None)
    lam /= lam.sum()
    lo = float(np.min(sgn * (pt - lam @ verts)))
    mu = np.clip(-np.asarray(res.ineqlin.marginals), 0, None)
    hi = np.inf
    if mu.sum() > 0:
        mu /= mu.sum()
        hi = float(mu @ (sgn * pt)) - float(np.min(sgn * verts @ mu))
    mag = float(max(np.abs(verts).max(), np.abs(pt).max()))
    with np.errstate(all="ignore"):
        try:
            ans = is_pt_in_extended_polytope(pt, verts, invert_extension=invert)
        except Exception as e:
            mon.violation(P.crash_mechanism(e), f"is_pt_in_extended_polytope raised {e!r}", {"pt": pt, "verts": verts})
            return
    mon.count("helper_pt_events")
    case = {"kind": "helper-pt", "pt": pt, "verts": verts, "invert": invert}
    P.judge(mon, "C11", "is_pt_in_extended_polytope", ans, lo, hi, TAU_LP * (1 + mag), case,
            case_hash("h", pt, verts, invert), f"helper-pt/dim{dim}/{'inv' if invert else 'std'}",
            demand_false_only=(dim != 2))


def helper_seg_case(mon, rng):
    from vopy.utils import line_seg_pt_intersect_at_dim

    dim = int(rng.choice([2, 3, 4]))
    scale = gen.rand_scale(rng)
    P1 = rng.normal(size=dim) * scale
    P2 = P1 + rng.normal(size=dim) * scale
    k = int(rng.integers(dim))
    u = rng.uniform(-0.5, 1.5)
    if rng.random() < 0.2:
        u = float(rng.choice([0.0, 1.0]))
    tgt = rng.normal(size=dim) * scale
    tgt[k] = P1[k] + u * (P2[k] - P1[k])
    with np.errstate(all="ignore"):
        out = line_seg_pt_intersect_at_dim(P1, P2, tgt, k)
    mon.count("helper_seg_events")
    mag = float(max(np.abs(P1).max(), np.abs(P2).max()))
    tol = 1e-9 * (1 + mag)
    seglen_k = abs(P2[k] - P1[k])
    case = {"kind": "helper-seg", "P1": P1, "P2": P2, "target": tgt, "dim": k, "u": u}
    h = case_hash("s", P1, P2, tgt, k)
    inside = -1e-9 < u < 1 + 1e-9
    decisive = abs(u) > 1e-6 and abs(u - 1) > 1e-6 and seglen_k > 1e-9 * scale
    mon.event(h, nontrivial=decisive, cls=f"helper-seg/dim{dim}/{'in' if 0 <= u <= 1 else 'out'}")
    if not decisive:
        mon.count("inside_band")
        return
    if out is None:
        if 0 < u < 1:
            mon.violation("line_seg:none-inside", f"segment crosses target coordinate (u={u:.4f}) but None returned", case)
        return
    if not (0 <= u <= 1):
        mon.violation("line_seg:point-outside", f"u={u:.4f} outside the segment but a point was returned", case)
        return
    want = P1 + u * (P2 - P1)
    if abs(out[k] - tgt[k]) > tol or np.abs(out - want).max() > 1e-7 * (1 + mag):
        mon.violation("line_seg:wrong-point", f"returned {out}, expected {want}", case)


def inrun(mon, rng):
    """pessimistic sets computed inside real VOGP / epsilon-PAL runs (stub posteriors) vs the oracle"""
    from vmon import runchecks, runs

    variant = "VOGP" if rng.random() < 0.7 else "EpsilonPAL"
    case, order = runs.make_case(rng, variant, m=2, K=int(rng.integers(2, 8)), cone_families=["theta", "random", "orthant"],
                                 contraction=float(rng.choice([2, 8])))
    case["max_rounds"] = 40
    tr = runs.run_case(case, order, mon, max_extra_steps=0)
    mon.count("inrun_runs")
    for st in tr.steps:
        if st["crash"] is None:
            runchecks.check_pess(mon, tr, st)


def inrun_ad(mon, rng):
    from vmon import runchecks, runs

    case, order = runs.make_ad_case(rng)
    case["max_rounds"] = 50
    tr = runs.run_ad_case(case, order, mon)
    mon.count("inrun_runs")
    for st in tr.steps:
        if st["crash"] is None and not st.get("after_completion"):
            runchecks.check_pess(mon, tr, st)


def shard(mon, tier, rng, shard_no, nshards):
    n = max(6, N[tier] // nshards)
    for _ in range(3 if tier == "quick" else 60):
        inrun(mon, rng)
    for _ in range(1 if tier == "quick" else 6):
        inrun_ad(mon, rng)
    for _ in range(25 if tier == "quick" else 400):
        far_translation(mon, rng)
    for i in range(n):
        r = rng.random()
        if r < 0.6:
            pair_case(mon, rng)
        elif r < 0.8:
            for _ in range(4):
                helper_pt_case(mon, rng)
        else:
            for _ in range(6):
                helper_seg_case(mon, rng)


def replay(mon, rec):
    c = rec["case"]
    if "variant" in c:
        from vmon import runchecks, runs

        def chk(mon, tr):
            for st in tr.steps:
                if st["crash"] is None:
                    runchecks.check_pess(mon, tr, st)
        runs.replay_runs(mon, rec, chk)
        return
    if c.get("kind") != "pess":
        print("replay supports pess cases only; case:", c)
        return
    W = np.array(c["W"], float)
    order = gen.make_order("W", W=W)
    with np.errstate(all="ignore"):
        ans = call_real(order, P.mk_rect(c["lo1"], c["hi1"]), P.mk_rect(c["lo2"], c["hi2"]), "dispatch")
    lo, hi = G.pess_dominates_margin(W, np.array(c["lo1"]), np.array(c["hi1"]), np.array(c["lo2"]), np.array(c["hi2"]))
    print(f"real answer={bool(ans)} certified per-vertex margin in [{lo!r},{hi!r}]")
    if (lo > 0 and not ans and W.shape == (2, 2)) or (hi < 0 and ans):
        mon.violation(rec["mechanism"], "reproduced", c)
