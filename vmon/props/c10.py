"""C10 — region 'is covered' decides  exists z in R1, z' in R2 : z' dominates z by the slack.

Reference-model monitor with certified oracles: the margin  max_d min_n (W d - s)_n  is
sandwiched between an explicit primal pair (z, z') checked directly and an explicit separating
functional lam >= 0."""
from __future__ import annotations

import numpy as np

from vmon import gen, predicates as P
from vmon.core import case_hash
from vmon.oracles import geometry as G

RULE = (
    "random region pairs (rect m=2..4, ellipsoid m=2..3; scales 1e-4..1e2, tiny late-run regions "
    "next to O(1) centres included), all cone families incl. K>m, slack 0/scalar/vector; second "
    "region translated along a cone-interior direction so the certified margin is +-gamma*scale. "
    "distinct = hash of rounded inputs; non-trivial = certified sandwich entirely outside the band."
)
ASSUMPTIONS = [
    "oracle: HiGHS LP (rect) / golden-section+SLSQP minimax (ellipsoid); both only propose certificates, "
    "the primal point and the dual multiplier are checked in numpy",
    "band: rect 1e-6*(1+mag); ellipsoid 2e-6+1e-4*mag",
    "rectangle slack is an objective-space shift, ellipsoid slack a per-facet allowance (as the property states)",
]
N = {"quick": 1200, "thorough": 24000}
REQUIRE = {"quick": {"decisive_true": 300, "decisive_false": 300, "ell_events": 300, "rect_events": 500, "history_events": 60}}
TIMEOUT = {"quick": 900, "thorough": 7200}


def call_real(order, r1, r2, slack, via):
    from vopy import confidence_region as CR

    if via == "dispatch":
        return CR.confidence_region_is_covered(order, r1, r2, slack)
    return type(r1).is_covered(order, r1, r2, slack)


def rect_case(mon, rng, label, order, m):
    W = order.ordering_cone.W
    lo1, hi1, lo2, hi2, mode, scale = gen.rect_pair(rng, m)
    if rng.random() < 0.25:  # tiny late-run regions around O(1) centres
        off = rng.normal(size=m)
        lo1, hi1, lo2, hi2 = lo1 + off, hi1 + off, lo2 + off, hi2 + off
    sk = str(rng.choice(["zero", "scalar", "vector"]))
    if sk == "zero":
        slack = 0
    elif sk == "scalar":
        slack = float(scale * 10 ** rng.uniform(-2, 0))
        if rng.random() < 0.3:
            slack = np.array(slack)  # a 0-d array is a scalar too
    else:
        slack = np.abs(rng.normal(size=m)) * scale * 10 ** rng.uniform(-2, 0)
    d = gen.interior_dir(W)
    rates = W @ d

    def mfun(t):
        lo, hi = G.rect_covered_margin(W, lo1, hi1, lo2 + t * d, hi2 + t * d, slack)
        return 0.5 * (lo + hi)

    targets = [None] + [float(s * g * scale) for g in gen.GAMMAS for s in (1, -1) if rng.random() < 0.5]
    for tgt in targets:
        tau = 0.0 if tgt is None else gen.aim(mfun, None, rates, tgt)
        l2, h2 = lo2 + tau * d, hi2 + tau * d
        lo, hi = G.rect_covered_margin(W, lo1, hi1, l2, h2, slack)
        mag = float(max(np.abs(lo1).max(), np.abs(hi1).max(), np.abs(l2).max(), np.abs(h2).max(),
                        np.abs(np.asarray(slack)).max()))
        case = {"kind": "rect", "cone": label, "W": W, "lo1": lo1, "hi1": hi1, "lo2": l2, "hi2": h2,
                "slack": slack, "mode": mode}
        via = "dispatch" if rng.random() < 0.5 else "classmethod"
        mon.count("rect_events")
        e0 = P.NATURAL_SOLVER_ERRORS[0]
        try:
            ans = call_real(order, P.mk_rect(lo1, hi1), P.mk_rect(l2, h2),
                            slack if sk == "zero" else np.asarray(slack), via)
        except Exception as e:
            mon.violation(P.crash_mechanism(e), f"is_covered raised {e!r}", case)
            continue
        h = case_hash("r", W, lo1, hi1, l2, h2, np.asarray(slack, float))
        P.judge(mon, "C10", "rect.is_covered", ans, lo, hi, P.band("rect", mag, fallback=P.NATURAL_SOLVER_ERRORS[0] > e0), case, h,
                f"rect/{label}/{mode}/slack-{sk}")
        if hi - lo > 1e-7 * (1 + mag):
            mon.count("wide_sandwich")
        if len(mon.samples) < 2:
            mon.sample({**case, "oracle_margin": [lo, hi], "answer": bool(ans)})


def ell_case(mon, rng, label, order, m):
    W = order.ordering_cone.W
    K = W.shape[0]
    c1, S1, a1, c2, S2, a2, mode, scale = gen.ell_pair(rng, m)
    if rng.random() < 0.25:
        off = rng.normal(size=m)
        c1, c2 = c1 + off, c2 + off
    sk = str(rng.choice(["zero", "scalar", "vector"]))
    if sk == "zero":
        slack = 0
    elif sk == "scalar":
        slack = float(scale * 10 ** rng.uniform(-2, 0))
        if rng.random() < 0.3:
            slack = np.array(slack)  # a 0-d array is a scalar too
    else:
        slack = np.abs(rng.normal(size=K)) * scale * 10 ** rng.uniform(-2, 0)
    d = gen.interior_dir(W)
    rates = W @ d

    def mfun(t):
        lo, hi = G.ell_covered_margin(W, c1, S1, a1, c2 + t * d, S2, a2, slack)
        return hi

    targets = [None] + [float(s * g * scale) for g in gen.GAMMAS for s in (1, -1) if rng.random() < 0.35]
    for tgt in targets:
        tau = 0.0 if tgt is None else gen.aim(mfun, None, rates, tgt, iters=5)
        cc2 = c2 + tau * d
        lo, hi = G.ell_covered_margin(W, c1, S1, a1, cc2, S2, a2, slack)
        ext = max(a1 * np.sqrt(np.linalg.eigvalsh(S1).max()), a2 * np.sqrt(np.linalg.eigvalsh(S2).max()))
        mag = float(max(np.abs(c1).max(), np.abs(cc2).max(), ext, np.abs(np.asarray(slack)).max()))
        case = {"kind": "ell", "cone": label, "W": W, "c1": c1, "S1": S1, "a1": a1, "c2": cc2, "S2": S2,
                "a2": a2, "slack": slack, "mode": mode}
        via = "dispatch" if rng.random() < 0.5 else "classmethod"
        mon.count("ell_events")
        e0 = P.NATURAL_SOLVER_ERRORS[0]
        try:
            ans = call_real(order, P.mk_ell(c1, S1, a1), P.mk_ell(cc2, S2, a2),
                            slack if sk != "vector" else np.asarray(slack), via)
        except Exception as e:
            mon.violation(P.crash_mechanism(e), f"is_covered raised {e!r}", case)
            continue
        h = case_hash("e", W, c1, S1, a1, cc2, S2, a2, np.asarray(slack, float))
        tau_b = P.band("socp", mag, fallback=P.NATURAL_SOLVER_ERRORS[0] > e0)
        if hi - lo > tau_b:
            mon.count("wide_sandwich")
        P.judge(mon, "C10", "ell.is_covered", ans, lo, hi, tau_b, case, h, f"ell/{label}/{mode}/slack-{sk}")
        if 2 <= len(mon.samples) < 4:
            mon.sample({**case, "oracle_margin": [lo, hi], "answer": bool(ans)})


def history_case(mon, rng):
    """the same region OBJECTS are used across calls and updated in between (iterative intersection and plain replacement):
    the answer must reflect the bounds the object holds now"""
    from vopy.confidence_region import RectangularConfidenceRegion

    m = int(rng.choice([2, 3]))
    label, order = gen.random_order(rng, m, rowscale_p=0.15)
    W = order.ordering_cone.W
    it = bool(rng.random() < 0.6)
    r1 = RectangularConfidenceRegion(m, intersect_iteratively=it)
    r2 = RectangularConfidenceRegion(m, intersect_iteratively=bool(rng.random() < 0.5))
    scale = gen.rand_scale(rng)
    c1 = rng.normal(size=m) * scale
    c2 = c1 + rng.normal(size=m) * scale * 2
    for step in range(int(rng.integers(3, 8))):
        for r, c in ((r1, c1), (r2, c2)):
            if step == 0 or rng.random() < 0.6:
                mean = c + rng.normal(size=m) * scale * 0.2
                std = scale * 10 ** rng.uniform(-1.5, 0.3, size=m) * (0.6 ** step)
                r.update(mean, np.diag(std**2), np.array(1.0))
        lo1, hi1, lo2, hi2 = (np.array(r1.lower, float), np.array(r1.upper, float), np.array(r2.lower, float), np.array(r2.upper, float))
        slack = 0 if rng.random() < 0.5 else float(scale * 10 ** rng.uniform(-2, -0.5))
        lo, hi = G.rect_covered_margin(W, lo1, hi1, lo2, hi2, slack)
        mag = float(max(np.abs(lo1).max(), np.abs(hi1).max(), np.abs(lo2).max(), np.abs(hi2).max()))
        case = {"kind": "rect", "cone": label, "W": W, "lo1": lo1, "hi1": hi1, "lo2": lo2, "hi2": hi2, "slack": slack, "mode": f"history-step{step}"}
        e0 = P.NATURAL_SOLVER_ERRORS[0]
        try:
            ans = call_real(order, r1, r2, slack, "dispatch")
        except Exception as e:
            mon.violation(P.crash_mechanism(e), f"is_covered raised {e!r}", case)
            return
        mon.count("history_events")
        P.judge(mon, "C10", "rect.is_covered", ans, lo, hi, P.band("rect", mag, fallback=P.NATURAL_SOLVER_ERRORS[0] > e0), case,
                case_hash("hist", W, lo1, hi1, lo2, hi2, slack), f"history/{label}/{'iter' if it else 'plain'}")


def forced_fallback_channel(mon, rng, n):
    """INFORMATIONAL ONLY (never a violation): the first solve() of each problem is made to raise SolverError so the
    `except SolverError: prob.solve(solver=SCS)` path and its status mapping are exercised; wrong decisions are counted
    per region-scale decade.  The fault is synthetic; the property quantifies over inputs, not fault sequences."""
    import cvxpy as cp

    orig = cp.Problem.solve
    state = {"armed": False}

    def solve(self, *a, **k):
        if state["armed"] and "solver" not in k:
            state["armed"] = False
            raise cp.error.SolverError("injected by the monitor")
        return orig(self, *a, **k)

    cp.Problem.solve = solve
    try:
        for _ in range(n):
            m = 2
            label, order = gen.random_order(rng, m, families=["theta", "orthant", "random"], rowscale_p=0.15)
            W = order.ordering_cone.W
            ell = rng.random() < 0.5
            if ell:
                c1, S1, a1, c2, S2, a2, mode, scale = gen.ell_pair(rng, m)
                lo, hi = G.ell_covered_margin(W, c1, S1, a1, c2, S2, a2, 0.0)
                r1, r2 = P.mk_ell(c1, S1, a1), P.mk_ell(c2, S2, a2)
            else:
                lo1, hi1, lo2, hi2, mode, scale = gen.rect_pair(rng, m)
                lo, hi = G.rect_covered_margin(W, lo1, hi1, lo2, hi2, 0.0)
                r1, r2 = P.mk_rect(lo1, hi1), P.mk_rect(lo2, hi2)
            state["armed"] = True
            try:
                ans = call_real(order, r1, r2, 0, "classmethod")
            except Exception:
                mon.count("scs_forced_crash")
                state["armed"] = False
                continue
            dec = int(np.floor(np.log10(scale)))
            mon.count("scs_forced_events")
            if abs(lo) > 1e-2 * scale and (lo > 0) != bool(ans) and (hi > 0) == (lo > 0):
                mon.count("scs_forced_wrong_at_rel_margin_gt_1e-2")
                mon.count(f"scs_forced_wrong_scale_1e{dec}")
    finally:
        cp.Problem.solve = orig


def shard(mon, tier, rng, shard_no, nshards):
    P.install_solver_logger()
    n = max(4, N[tier] // nshards)
    for i in range(n):
        if rng.random() < 0.55:
            m = int(rng.choice([2, 2, 3, 4]))
            label, order = gen.random_order(rng, m, rowscale_p=0.15)
            rect_case(mon, rng, label, order, m)
        else:
            m = int(rng.choice([2, 2, 3, 4]))
            label, order = gen.random_order(rng, m, rowscale_p=0.15)
            ell_case(mon, rng, label, order, m)
        if i % 4 == 0:
            history_case(mon, rng)
    if tier == "thorough":
        forced_fallback_channel(mon, rng, 60)
    mon.notes["solver_status_seen"] = dict(P.SOLVER_STATUS)
    mon.count("natural_solver_errors", P.NATURAL_SOLVER_ERRORS[0])


def replay(mon, rec):
    c = rec["case"]
    W = np.array(c["W"], float)
    order = gen.make_order("W", W=W)
    slack = c["slack"]
    slack = np.array(slack, float) if isinstance(slack, list) else slack
    if c["kind"] == "rect":
        ans = call_real(order, P.mk_rect(c["lo1"], c["hi1"]), P.mk_rect(c["lo2"], c["hi2"]), np.asarray(slack), "dispatch")
        lo, hi = G.rect_covered_margin(W, np.array(c["lo1"]), np.array(c["hi1"]), np.array(c["lo2"]), np.array(c["hi2"]), slack)
    else:
        ans = call_real(order, P.mk_ell(c["c1"], c["S1"], c["a1"]), P.mk_ell(c["c2"], c["S2"], c["a2"]), slack, "dispatch")
        lo, hi = G.ell_covered_margin(W, np.array(c["c1"]), np.array(c["S1"]), c["a1"], np.array(c["c2"]), np.array(c["S2"]), c["a2"], slack)
    print(f"real answer={bool(ans)} certified margin in [{lo!r},{hi!r}] (covered iff margin>=0)")
    if (lo > 0 and not ans) or (hi < 0 and ans):
        mon.violation(rec["mechanism"], "reproduced", c)
