"""C06 — runs are monotone, terminate cleanly, never crash, and account for every sample.

History + shadow accounting: run_one_step is wrapped on real algorithm objects (all nine algorithms),
a recording proxy on algorithm.problem logs every request; after every step the monitor checks set
monotonicity / disjointness / no-return, the completion flag, idempotence of steps after completion,
the round counter, and sample_count / total_cost against what the proxy actually saw."""
from __future__ import annotations

import numpy as np

from vmon import gen, runchecks, runs
from vmon.core import case_hash

RULE = (
    "all nine algorithms (12 variants with both confidence types, VOGP_AD on user-defined continuous problems) x cone families incl. K>m facets x batch sizes "
    "{1,2,3,5,8, > active set, > K} x costs/budgets (incl. budget hit mid-run) x K=1..16 x m=2..3 x stub posterior "
    "modes / controlled and real observations; every prefix of every run is checked; three extra steps after "
    "completion. One event per step. distinct = (case seed, step); non-trivial = the step sampled or changed S."
)
ASSUMPTIONS = ["GP algorithms use a stub posterior in place of the trained GP in the quick tier (real GP models in thorough)",
               "VOGP_AD runs use a GP trained on 64 Sobol points and are capped in rounds"]
N = {"quick": 170, "thorough": 6000}
REQUIRE = {"quick": {"runs": 150, "steps_checked": 1500, "completions": 100, "post_completion_steps": 300, "sampling_steps": 1000,
                     "batch_gt_active_runs": 15, "cost_steps": 100, "budget_terminations": 3, "Kgtm_runs": 10,
                     "variants_run": 11, "vogp_ad_runs": 10, "interleaved_pairs": 10}}
TIMEOUT = {"quick": 1500, "thorough": 14400}
ALL = ["PaVeBa", "PaVeBaGP-IH", "PaVeBaGP-DE", "PartialGP-rect", "PartialGP-ell", "VOGP", "EpsilonPAL", "Auer", "Auer-emp",
       "NaiveElimination", "DecoupledGP"]


def make(rng, variant):
    over = {}
    info = runs.VARIANTS[variant]
    over["K"] = int(rng.choice([1, 2, 3, 4, 5, 6, 8, 12, 16], p=[.1, .1, .15, .15, .15, .1, .1, .1, .05]))
    if info.get("shape") == "ell":
        over["K"] = min(over["K"], 8)  # ellipsoid predicates are SOCPs (~9 ms each): keep runs short
    if info.get("batch"):
        over["batch"] = int(rng.choice([1, 2, 3, 5, 8, over["K"] + 1, 2 * over["K"] + 3]))
    if variant in ("PaVeBaGP-IH", "PartialGP-rect"):
        # rectangle-mode PaVeBa variants: K != m cones are the known finding K1; still exercised (1 in 5)
        over["allow_Kgtm"] = bool(rng.random() < 0.2)
    else:
        over["allow_Kgtm"] = True
    over["contraction"] = float(rng.choice([4, 8, 32, 64]))
    if variant in ("PartialGP-rect", "PartialGP-ell"):
        if rng.random() < 0.6:
            m = 2 if rng.random() < 0.7 else 3
            over["m"] = m
            over["costs"] = [float(c) for c in rng.choice([1.0, 2.0, 3.0, 0.5], size=m)]
            if rng.random() < 0.6:
                over["budget"] = float(rng.choice([3, 8, 20, 60]))
    if variant == "DecoupledGP":
        m = 2 if rng.random() < 0.7 else 3
        over["m"] = m
        over["costs"] = [float(c) for c in rng.choice([1.0, 2.0, 3.0], size=m)]
        over["budget"] = float(rng.choice([3, 10, 25]))
        over["K"] = max(2, over["K"])
        over["batch"] = int(rng.choice([1, 2, 3, over["K"] + 1]))
    if variant in ("PaVeBa", "Auer", "Auer-emp"):
        over["contraction"] = float(rng.choice([8, 32, 64]))
    case, order = runs.make_case(rng, variant, **over)
    if variant == "NaiveElimination":
        case["L"] = int(rng.integers(1, 8)) if rng.random() < 0.5 else int(rng.integers(51, 130))
        case["max_rounds"] = 140
    if variant == "Auer-emp":
        case["hetero"] = (np.sqrt(case["noise_var"]) * 10 ** rng.uniform(-1, 1, size=(case["K"], case["m"]))).tolist()  # per (design, objective)
    case["max_rounds"] = max(120, case.get("max_rounds", 0) if variant == "NaiveElimination" else 120)
    return case, order


def run_and_check(mon, case, order, variant):
    tr = runs.run_case(case, order, mon)
    mon.count("runs")
    if tr.ctor_crash:
        if case.get("model") == "real" and type(tr.crashed).__name__ == "ModelFittingError":
            # botorch could not fit hyper-parameters to the synthetic dataset (structureless random values on a grid): like a
            # collapsed fit this is a property of the dataset the harness invented, not of the run logic — counted, not judged
            mon.count("degenerate_gp_fit_runs")
            return tr
        mon.violation(f"crash:ctor:{type(tr.crashed).__name__}:{variant}", f"{variant}/{case['cone']}: constructor raised {tr.crashed!r}", runs.case_public(case))
        return tr
    runchecks.check_accounting(mon, tr)
    return tr


def directed(mon):
    """regression corpus: K1 (rectangle-mode PaVeBa variants under a K != m cone), D8 (batch > active set)."""
    rng = np.random.default_rng(606)
    for variant in ("PaVeBaGP-IH", "PartialGP-rect"):
        case, order = runs.make_case(rng, variant, m=2, K=4, cone_families=["randomK"], allow_Kgtm=True, batch=1)
        run_and_check(mon, case, order, variant)
    for variant in ("VOGP", "EpsilonPAL", "PaVeBaGP-IH", "PaVeBaGP-DE", "PartialGP-ell", "DecoupledGP"):
        over = dict(m=2, K=3, batch=7, cone_families=["orthant"])
        if variant == "DecoupledGP":
            over.update(costs=[1.0, 2.0], budget=12.0)
        case, order = runs.make_case(rng, variant, **over)
        case["max_rounds"] = 60
        run_and_check(mon, case, order, variant)
        mon.count("batch_gt_active_runs")
    # budget-terminated runs: budget hit exactly and overshot, integer and fractional costs
    for variant, costs, budget, batch in (("PartialGP-rect", [1.0, 2.0], 3.0, 1), ("PartialGP-ell", [1.0, 1.0], 4.0, 2),
                                          ("PartialGP-rect", [1.0, 1.5], 3.2, 1), ("PartialGP-rect", [2.0, 1.0], 6.0, 3),
                                          # a reachable total a few 1e-6 (relative) BELOW the budget: not yet spent (seeded/W02)
                                          ("PartialGP-rect", [1.0, 1.0], 4.00003, 1), ("DecoupledGP", [1.0, 1.0], 6.00004, 1),
                                          ("PartialGP-ell", [1.0, 2.0], 5.00001, 1), ("DecoupledGP", [0.5, 0.25], 2.000015, 2)):
        case, order = runs.make_case(rng, variant, m=2, K=6, cone_families=["orthant"], costs=costs, budget=budget, batch=batch,
                                     contraction=1.0, ds_family="tight")
        case["max_rounds"] = 40
        run_and_check(mon, case, order, variant)
    # K2: VOGP_AD on a 1-D domain
    case, order = runs.make_ad_case(rng, d=1, m=2)
    tr = runs.run_ad_case(case, order, mon)
    mon.count("runs")
    runchecks.check_accounting(mon, tr)


def ad_run(mon, rng):
    case, order = runs.make_ad_case(rng)
    case["max_rounds"] = 100
    tr = runs.run_ad_case(case, order, mon)
    mon.count("runs")
    mon.count("vogp_ad_runs")
    if tr.ctor_crash:
        mon.violation(f"crash:ctor:{type(tr.crashed).__name__}:VOGP_AD", f"VOGP_AD/{case['cone']}: constructor raised {tr.crashed!r}", runs.case_public(case))
        return
    runchecks.check_accounting(mon, tr)


def interleaved_pair(mon, rng):
    """two objects of the same class alive at once and stepped alternately: each must account for its own samples only"""
    variant = str(rng.choice(["VOGP", "PaVeBaGP-IH", "PartialGP-rect", "EpsilonPAL", "Auer", "PaVeBa", "PaVeBaGP-DE"]))
    a, oa = make(rng, variant)
    b, ob = make(rng, variant)
    a["max_rounds"] = b["max_rounds"] = 40
    try:
        trs = runs.run_pair(a, oa, b, ob, mon, max_steps=40)
    except Exception as e:
        mon.violation(f"crash:ctor:{type(e).__name__}:{variant}", f"{variant}: building two instances raised {e!r}", runs.case_public(a))
        return
    mon.count("interleaved_pairs")
    for tr in trs:
        mon.count("runs")
        runchecks.check_accounting(mon, tr)
        for st in tr.steps:
            if st["crash"] is None:
                runchecks.check_discard(mon, tr, st)


def shard(mon, tier, rng, shard_no, nshards):
    n = max(11, N[tier] // nshards)
    for _ in range(1 if tier == "quick" else 8):
        interleaved_pair(mon, rng)
    seen = set()
    if shard_no == 0:
        directed(mon)
    ad_run(mon, rng)
    for it in range(n):
        variant = ALL[(it + shard_no) % len(ALL)]
        case, order = make(rng, variant)
        if tier == "thorough" and it % 20 == 7 and runs.VARIANTS[variant]["algo"] in ("VOGP", "EpsilonPAL", "PaVeBaGP", "PaVeBaPartialGP"):
            # the real GP wrapper, fitted by the real factory helper on the K designs: standardised values, enough designs and a
            # noise level for which the fit is well conditioned (a degenerate fit is detected and skipped by run_case)
            case, order = runs.make_case(rng, variant, K=int(rng.integers(8, 13)), scale=1.0, ds_family="random", noise_var=0.01, eps=0.3,
                                         contraction=16.0, model="real", allow_Kgtm=False, batch=int(rng.choice([1, 2])))
            case["max_rounds"] = 40
            mon.count("real_model_runs")
        tr = runs.run_case(case, order, mon)
        mon.count("runs")
        seen.add(variant)
        W = case["W"]
        if W.shape[0] != W.shape[1]:
            mon.count("Kgtm_runs")
        if case["batch"] > 1 and any(case["batch"] > len(st["pre"][0] | (st["pre"][1] or set())) for st in tr.steps if st["pre"][1] is not None):
            mon.count("batch_gt_active_runs")
        if tr.ctor_crash and case.get("model") == "real" and type(tr.crashed).__name__ == "ModelFittingError":
            mon.count("degenerate_gp_fit_runs")  # see run_and_check
            continue
        if tr.ctor_crash:
            mon.violation(f"crash:ctor:{type(tr.crashed).__name__}:{variant}", f"{variant}/{case['cone']}: constructor raised {tr.crashed!r}", runs.case_public(case))
            continue
        if tr.cap_reached:
            mon.count("cap_reached_runs")
        runchecks.check_accounting(mon, tr)
        if len(mon.samples) < 3 and tr.terminated:
            mon.sample({"case": {k: v for k, v in runs.case_public(case).items() if k not in ("W",)},
                        "steps": [{"round": s["round_pre"], "S": sorted(s["post"][0]), "P": sorted(s["post"][1]) if s["post"][1] is not None else None,
                                   "returned": s["returned"], "samples": s["count_post"]} for s in tr.steps[:6]]})
    mon.counters["variants_run"] = 0
    mon.notes[f"variants_shard{shard_no}"] = sorted(seen)
    if shard_no == 0:
        mon.counters["variants_run"] = len(seen)


def replay(mon, rec):
    runs.replay_runs(mon, rec, lambda mon, tr: runchecks.check_accounting(mon, tr))
