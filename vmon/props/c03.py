"""C03 — a design enters P exactly when no active region can still epsilon-cover it; usefulness; Auer hold-back.

Invariant at phase hooks around pareto_updating / epsiloncovering / useful_updating on the real
algorithm instance; reference transition recomputed from the displayed regions (the algorithm's own
slack units: objective-space shift for rectangles, per-facet allowance for ellipsoids), every Auer
width read from the design's own displayed rectangle."""
from __future__ import annotations

import numpy as np

from vmon import runchecks, runs
from vmon.core import case_hash

RULE = (
    "every (round, candidate) admission decision and every (round, member) usefulness decision of stub-driven / "
    "controlled / heteroscedastic runs of all nine eliminating variants; Auer with empirical widths on per-design "
    "noise levels spread over two decades. One event per decision. distinct = (case seed, round, design); non-trivial "
    "= the oracle demands an outcome."
)
ASSUMPTIONS = ["covering bands: rectangles 1e-6 rel (LP certificates), ellipsoids 2e-6+1e-4*mag (minimax certificates)",
               "Auer: a round is judged only if every first-stage membership is decisive"]
N = {"quick": 190, "thorough": 3500}
VARS = ["PaVeBa", "PaVeBaGP-IH", "PaVeBaGP-DE", "PartialGP-rect", "PartialGP-ell", "VOGP", "EpsilonPAL", "Auer", "Auer-emp", "Auer-emp", "VOGP"]
REQUIRE = {"quick": {"runs_reaching_200_rounds": 4, "must_admit": 300, "must_hold": 1500, "must_useful": 50, "must_not_useful": 50, "auer_held_back": 5, "many_design_runs": 6, "eps_zero_runs": 30, "eps_zero_auer_rounds": 100, "auer_blocked_only_by_per_objective_sum": 10, "runs": 150, "vogp_ad_runs": 10,
                     **{f"must_admit::{v}": 8 for v in set(VARS)}, **{f"must_hold::{v}": 20 for v in set(VARS)}}}
TIMEOUT = {"quick": 1500, "thorough": 14400}


def make(rng, variant):
    over = {"K": int(rng.integers(1, 11)), "allow_Kgtm": variant not in ("PaVeBaGP-IH", "PartialGP-rect")}
    over["contraction"] = float(rng.choice([2, 8, 32]))
    if variant in ("PaVeBa", "Auer", "Auer-emp"):
        over["contraction"] = float(rng.choice([4, 16, 64]))
    if variant == "PaVeBa":
        over["contraction"] = float(rng.choice([1, 2, 4, 16]))  # wider balls: runs last more than one round
    if runs.VARIANTS[variant]["shape"] == "ell":
        over["K"] = min(over["K"], 6)
    elif rng.random() < 0.12 and variant not in ("PaVeBa",):
        over["K"] = int(rng.integers(12, 17))  # design indices with two digits, larger active sets
        over["contraction"] = 32.0
    if variant == "Auer-emp":
        over["K"] = int(rng.integers(3, 11))
        over["ds_family"] = str(rng.choice(["chain", "tight", "random"]))
    case, order = runs.make_case(rng, variant, **over)
    if variant == "Auer-emp":
        case["hetero"] = (np.sqrt(case["noise_var"]) * 10 ** rng.uniform(-1, 1, size=(case["K"], case["m"]))).tolist()  # per (design, objective)
    case["max_rounds"] = 80
    return case, order


def directed_d9(mon):
    """regression corpus for D9 (Auer hold-back using a mis-indexed width): heteroscedastic designs, several seeds."""
    rng = np.random.default_rng(909)
    for _ in range(12):
        case, order = runs.make_case(rng, "Auer-emp", K=int(rng.integers(5, 10)), m=2, ds_family="chain", contraction=float(rng.choice([8, 16])),
                                     eps=0.3, scale=1.0, noise_var=0.05)
        case["hetero"] = (0.2 * 10 ** rng.uniform(-1, 1, size=case["K"])).tolist()
        case["max_rounds"] = 60
        tr = runs.run_case(case, order, mon, max_extra_steps=0)
        mon.count("runs")
        for st in tr.steps:
            if st["crash"] is None:
                runchecks.check_admit(mon, tr, st)


LONG = ["Auer", "PaVeBaGP-IH", "VOGP", "Auer-emp", "EpsilonPAL", "PartialGP-rect", "PaVeBaGP-DE", "PaVeBa"]


def long_run(mon, rng, k):
    """260-330 rounds of the same few designs (anything periodic in the round counter is passed several times)"""
    variant = LONG[k % len(LONG)]
    if k % 3 == 2:
        # two designs for more than 200 x 2 rounds: a cap expressed in rounds PER DESIGN is passed (seeded/U08)
        case, order = runs.long_case(rng, variant, K=2, rounds=int(rng.integers(430, 520)))
        mon.count("two_design_runs_beyond_400_rounds_attempted")
    else:
        case, order = runs.long_case(rng, variant)
    tr = runs.run_case(case, order, mon, max_extra_steps=0)
    mon.count("runs")
    mon.count("long_runs")
    for st in tr.steps:
        if st["crash"] is None:
            runchecks.check_admit(mon, tr, st)
            runchecks.check_useful(mon, tr, st)


def ad_run(mon, rng, deep=False):
    """VOGP_AD on a user-defined continuous problem (real GP): the same reference transition on tree nodes"""
    if deep:  # 1-D, depth 6-10, small exact numpy GP (seeded/Z02: gate decided by a cell-side tolerance)
        case, order = runs.make_ad_case(rng, eps=float(rng.choice([0.1, 0.2, 0.3])), depth_max=int(rng.integers(6, 11)), d=1)
        case["model"] = "numpy-gp"
        case["max_rounds"] = 300
        mon.count("deep_ad_runs")
    else:
        case, order = runs.make_ad_case(rng, eps=float(rng.choice([0.1, 0.15, 0.3])), depth_max=int(rng.choice([2, 3])), d=2)
        case["max_rounds"] = 110
    tr = runs.run_ad_case(case, order, mon)
    mon.count("runs")
    mon.count("vogp_ad_runs")
    for st in tr.steps:
        if st["crash"] is None and not st.get("after_completion"):
            runchecks.check_admit(mon, tr, st)


def directed_auer_emp(mon, rng):
    """strongly heteroscedastic noise per (design, objective): per-objective widths differ and it matters"""
    K = int(rng.integers(3, 7)) if rng.random() < 0.65 else int(rng.integers(9, 21))  # >= 9: set iteration order is no longer ascending
    m = int(rng.choice([2, 3]))
    case, order = runs.make_case(rng, "Auer-emp", K=K, m=m, scale=10.0, ds_family=str(rng.choice(["random", "chain"])), eps=1.0,
                                 contraction=float(rng.choice([1, 2, 4])), noise_var=1.0)
    case["hetero"] = (10 ** rng.uniform(-0.7, 1.0, size=(K, m))).tolist()
    case["max_rounds"] = 80
    tr = runs.run_case(case, order, mon, max_extra_steps=0)
    mon.count("runs")
    for st in tr.steps:
        if st["crash"] is None:
            runchecks.check_admit(mon, tr, st)


def directed_eps_zero(mon, rng):
    """epsilon exactly 0 (exact identification) is inside the quantifier: the same reference transition must hold, in particular
    Auer still holds passing designs back while an undecided design needs them — seeded/Z04-auer-no-holdback-when-eps-zero"""
    variant = str(rng.choice(["Auer", "Auer", "Auer-emp", "PaVeBa", "VOGP", "EpsilonPAL", "PaVeBaGP-IH"]))
    K = int(rng.integers(3, 8))
    case, order = runs.make_case(rng, variant, K=K, m=int(rng.choice([2, 3])), scale=1.0, ds_family=str(rng.choice(["random", "chain"])), eps=0.0,
                                 contraction=float(rng.choice([2, 4, 8])), noise_var=float(rng.choice([0.1, 1.0])), batch=1)
    if variant == "Auer-emp":
        case["hetero"] = (10 ** rng.uniform(-0.7, 0.7, size=(K, case["m"]))).tolist()
    case["max_rounds"] = 60
    tr = runs.run_case(case, order, mon, max_extra_steps=0)
    mon.count("runs")
    mon.count("eps_zero_runs")
    if tr.ctor_crash or tr.crashed:
        mon.count("eps_zero_runs_crashed")
    for st in tr.steps:
        if st["crash"] is None:
            runchecks.check_admit(mon, tr, st)
            if variant.startswith("Auer"):
                mon.count("eps_zero_auer_rounds")


def directed_many_designs(mon, rng):
    """13-16 designs on chain datasets (many heterogeneous cover relations, two-digit indices): exposes state shared between
    index pairs (caches, aliasing) — seeded/C01e-pavebagp-cover-memo-key-collision"""
    variant = str(rng.choice(["PaVeBaGP-IH", "PartialGP-rect", "VOGP", "EpsilonPAL"]))
    case, order = runs.make_case(rng, variant, K=int(rng.integers(13, 17)), m=2, ds_family="chain", cone_families=["orthant", "theta"],
                                 contraction=float(rng.choice([8, 32])), stub_mode=str(rng.choice(["random", "adversarial"])), batch=1)
    case["max_rounds"] = 25
    tr = runs.run_case(case, order, mon, max_extra_steps=0)
    mon.count("runs")
    mon.count("many_design_runs")
    for st in tr.steps:
        if st["crash"] is None:
            runchecks.check_admit(mon, tr, st)
            runchecks.check_useful(mon, tr, st)


def shard(mon, tier, rng, shard_no, nshards):
    for j in range(1 if tier == "quick" else 4):
        long_run(mon, rng, shard_no + j)
    if shard_no % 2 == 0 or tier == "thorough":
        for _ in range(1 if tier == "quick" else 6):
            directed_many_designs(mon, rng)
    for _ in range(1 if tier == "quick" else 6):
        ad_run(mon, rng)
        ad_run(mon, rng, deep=True)
    for _ in range(4 if tier == "quick" else 20):
        directed_auer_emp(mon, rng)
    for _ in range(3 if tier == "quick" else 15):
        directed_eps_zero(mon, rng)
    if shard_no == 0:
        directed_d9(mon)
    n = max(len(VARS), N[tier] // nshards)
    for it in range(n):
        variant = VARS[(it + shard_no) % len(VARS)]
        case, order = make(rng, variant)
        if tier == "thorough" and it % 20 == 7 and runs.VARIANTS[variant]["algo"] in ("VOGP", "EpsilonPAL", "PaVeBaGP", "PaVeBaPartialGP"):
            # the real GP wrapper, fitted by the real factory helper on the K designs: standardised values, enough designs and a
            # noise level for which the fit is well conditioned (a degenerate fit is detected and skipped by run_case)
            case, order = runs.make_case(rng, variant, K=int(rng.integers(8, 13)), scale=1.0, ds_family="random", noise_var=0.01, eps=0.3,
                                         contraction=16.0, model="real", allow_Kgtm=False, batch=int(rng.choice([1, 2])))
            case["max_rounds"] = 40
            mon.count("real_model_runs")
        tr = runs.run_case(case, order, mon, max_extra_steps=0)
        mon.count("runs")
        if tr.ctor_crash:
            mon.count("crashed_runs")
            continue
        for st in tr.steps:
            if st["crash"] is None:
                runchecks.check_admit(mon, tr, st)
                runchecks.check_useful(mon, tr, st)
            else:
                mon.count("crashed_runs")
        if len(mon.samples) < 3 and tr.steps:
            ph = runchecks.phase(tr.steps[0], "pareto_updating", "epsiloncovering")
            if ph:
                mon.sample({"variant": variant, "cone": case["cone"], "S_before": sorted(ph["pre"][0]), "P_after": sorted(ph["post"][1] or [])})


def replay(mon, rec):
    def chk(mon, tr):
        for st in tr.steps:
            if st["crash"] is None:
                runchecks.check_admit(mon, tr, st)
                runchecks.check_useful(mon, tr, st)
    runs.replay_runs(mon, rec, chk)
