"""C12 — cone orders are their cones' preorders; bundled cones have the stated geometry.

Reference: exact integer / rational arithmetic (python ints, fractions.Fraction of the float
values) for membership, including the boundary on lattices; preorder laws on whole lattices via
the real batched dominates(); bundled cone geometry by angle sweeps and tangent-ray tests."""
from __future__ import annotations

from fractions import Fraction

import numpy as np

from vmon import gen
from vmon.core import case_hash

RULE = (
    "(a) integer cone matrices x integer/dyadic lattice vectors incl. boundary points: dominates == "
    "exact integer evaluation; (b) preorder laws over every pair/triple of a lattice (radius 3 in 2-D, 2 "
    "in 3-D) from the real batched dominates; (c) float cones x float vectors vs exact Fraction "
    "evaluation outside a 1e-12 band; (d) theta-cone membership vs angle-to-diagonal on a 1e-3 rad sweep; "
    "(e) 3-D cones unit rows/diagonal inside; ice-cream cone rows unit, w_i.a = sin(theta), tangent rays. "
    "distinct = (cone, vector pair) hash; non-trivial = outside the band."
)
ASSUMPTIONS = ["integer products below 2^53 are exact in float64", "Fraction(float) is exact"]
N = {"quick": 160, "thorough": 16000}
REQUIRE = {"quick": {"lattice_boundary_events": 1000, "law_triples": 100000, "theta_dirs": 50000,
                     "icecream_cones": 8, "float_events": 2000, "batched_vs_single": 500, "integer_dtype_cone_cases": 20}}
TIMEOUT = {"quick": 900, "thorough": 3600}

INT_W = [
    [[1, 0], [0, 1]], [[2, -1], [-1, 2]], [[1, 0], [1, 1]], [[1, 2], [2, 1]], [[1, 0], [0, 1], [1, 1]],
    [[3, -1], [-1, 3], [1, 1]], [[1, 0, 0], [0, 1, 0], [0, 0, 1]], [[1, -2, 4], [4, 1, -2], [-2, 4, 1]],
    [[5, 2, 8], [8, 5, 2], [2, 8, 5]], [[1, 0, 0], [0, 1, 0], [0, 0, 1], [1, 1, -1]],
    [[1, 0, 0, 0], [0, 1, 0, 0], [0, 0, 1, 0], [0, 0, 0, 1], [1, 1, 1, 1]],
]


def as_bool(x):
    x = np.asarray(x)
    if x.size != 1:
        raise ValueError(f"single-vector dominates returned {x.shape}")
    return bool(x.reshape(-1)[0])


def lattice_exact(mon, rng):
    Wl = INT_W[int(rng.integers(len(INT_W)))]
    Wi = np.array(Wl, dtype=np.int64)
    if rng.random() < 0.4:
        # the cone matrix stored with an INTEGER dtype (as in the class docstring): answers must not depend on W's dtype
        from vopy.order import PolyhedralConeOrder
        from vopy.ordering_cone import OrderingCone

        key = ("intW", tuple(map(tuple, Wl)))
        if key not in gen._CONE_CACHE:
            gen._CONE_CACHE[key] = PolyhedralConeOrder(OrderingCone(np.array(Wl, dtype=np.int64)))
        order = gen._CONE_CACHE[key]
        mon.count("integer_dtype_cone_cases")
    elif rng.random() < 0.3:
        # the same cone with every facet row multiplied by a power of two (exact in floating point): tiny or huge row norms must
        # not change any answer — seeded/W07-ordering-cone-orthant-fast-path-allclose (absolute tolerance on W)
        order = gen.make_order("W", W=Wi.astype(float) * float(2.0 ** int(rng.choice([-40, -27, -27, -10, 20, 40]))))
        mon.count("power_of_two_scaled_cone_cases")
    else:
        order = gen.make_order("W", W=Wi.astype(float))
    m = Wi.shape[1]
    den = int(rng.choice([1, 2, 8, 8]))
    A = rng.integers(-6, 7, size=(60, m))
    B = rng.integers(-6, 7, size=(60, m))
    # force boundary cases: b = a - (vector on a facet)
    for i in range(0, 60, 2):
        n = int(rng.integers(len(Wi)))
        # find integer vector with w_n.v == 0 and W v >= 0 if possible (search small box)
        for _ in range(30):
            v = rng.integers(-4, 5, size=m)
            if Wi[n] @ v == 0 and (Wi @ v >= 0).all():
                B[i] = A[i] - v
                break
    for a, b in zip(A, B):
        exact_vals = Wi @ (a - b)
        expected = bool((exact_vals >= 0).all())
        on_boundary = expected and bool((exact_vals == 0).any())
        af, bf = a / den, b / den
        got = as_bool(order.dominates(af, bf))
        mon.event(case_hash("L", Wi, a, b, den), True, f"lattice/{Wi.shape[0]}x{m}/{'bd' if on_boundary else 'off'}")
        mon.count("lattice_boundary_events" if on_boundary else "lattice_off_events")
        if got != expected:
            mon.violation("dominates:lattice-" + ("boundary" if on_boundary else "off"),
                          f"W={Wl} a={af} b={bf}: exact W(a-b)={exact_vals / den} => {expected}, code {got}",
                          {"W": Wl, "a": af, "b": bf})
    # batched == single
    Af, Bf = A / den, B / den
    batched = np.asarray(order.dominates(Af, Bf[0]))
    singles = np.array([as_bool(order.dominates(x, Bf[0])) for x in Af])
    mon.count("batched_vs_single", len(Af))
    if batched.shape != (len(Af),) or (batched != singles).any():
        mon.violation("dominates:batched-differs", f"batched {batched.tolist()} vs singles {singles.tolist()}", {"W": Wl})
    ins = np.asarray(order.ordering_cone.is_inside(Af - Bf))
    exp = ((A - B) @ Wi.T >= 0).all(axis=1)
    if (ins != exp).any():
        mon.violation("is_inside:batched-wrong", "batched is_inside differs from exact", {"W": Wl})
    # the same batch in other memory layouts (Fortran order, transposed construction, non-contiguous view)
    D = Af - Bf
    variants = [("fortran", np.asfortranarray(D)), ("transposed", np.vstack([D[:, k] for k in range(m)]).T), ("exotic", gen.exotic(D, rng)),
                ("float32", D.astype(np.float32))]  # multiples of 1/8 below 16: exactly representable in float32 too
    if den == 1:
        variants += [("int64", (A - B).astype(np.int64)), ("int32", (A - B).astype(np.int32))]
        mon.count("integer_dtype_batches")
    for name, arr in variants:
        insl = np.asarray(order.ordering_cone.is_inside(arr))
        mon.count("layout_batches")
        if insl.shape != exp.shape or (insl != exp).any():
            mon.violation("is_inside:layout-dependent", f"batched is_inside on a {name} array differs from the exact answer in "
                          f"{int((insl != exp).sum()) if insl.shape == exp.shape else 'all'} of {len(exp)} rows", {"W": Wl, "layout": name})
            break


def laws(mon, rng):
    Wl = INT_W[int(rng.integers(len(INT_W) - 1))]
    Wi = np.array(Wl, dtype=np.int64)
    order = gen.make_order("W", W=Wi.astype(float))
    m = Wi.shape[1]
    if m > 3:
        return
    rad = 3 if m == 2 else 2
    axes = [np.arange(-rad, rad + 1)] * m
    X = np.stack(np.meshgrid(*axes, indexing="ij"), -1).reshape(-1, m).astype(float)
    n = len(X)
    D = np.zeros((n, n), bool)  # D[i,j] : x_i dominates x_j   (from the REAL code)
    for i in range(n):
        D[i] = np.asarray(order.dominates(X[i], X))
    exact = ((X[:, None, :] - X[None, :, :]).astype(np.int64) @ Wi.T >= 0).all(-1)
    mon.count("law_pairs", n * n)
    ctx = {"W": Wl, "radius": rad}
    if (D != exact).any():
        i, j = np.argwhere(D != exact)[0]
        mon.violation("dominates:lattice-matrix", f"{X[i]} vs {X[j]}: exact {exact[i, j]} code {D[i, j]}", ctx)
    if not D.diagonal().all():
        mon.violation("law:reflexive", "x does not dominate itself", ctx)
    # transitive: D[i,j] & D[j,k] => D[i,k]
    comp = (D.astype(np.int32) @ D.astype(np.int32)) > 0
    mon.count("law_triples", n * n * n)
    if (comp & ~D).any():
        mon.violation("law:transitive", "a>=b, b>=c but not a>=c", ctx)
    # antisymmetric for pointed cones (rank m)
    if np.linalg.matrix_rank(Wi) == m:
        both = D & D.T
        np.fill_diagonal(both, False)
        if both.any():
            mon.violation("law:antisymmetric", "distinct a,b dominate each other under a pointed cone", ctx)
    # translation / positive scaling invariance on sampled pairs (float shifts that stay exact: dyadic)
    for _ in range(200):
        i, j = rng.integers(n, size=2)
        t = rng.integers(-64, 65, size=m) / 8.0
        s = float(rng.choice([0.125, 0.5, 2.0, 3.0, 1024.0]))
        base = bool(D[i, j])
        if as_bool(order.dominates(X[i] + t, X[j] + t)) != base:
            mon.violation("law:translation", f"{X[i]},{X[j]} shift {t}", ctx)
        if as_bool(order.dominates(s * X[i], s * X[j])) != base:
            mon.violation("law:scaling", f"{X[i]},{X[j]} scale {s}", ctx)
        mon.count("law_invariance", 2)
    mon.event(case_hash("laws", Wi), True, f"laws/{Wi.shape[0]}x{m}")


def float_exact(mon, rng):
    m = int(rng.choice([2, 3, 4, 5]))
    label, order = gen.random_order(rng, m, rowscale_p=0.15)
    W = order.ordering_cone.W
    WF = [[Fraction(float(x)) for x in row] for row in W]
    scale = gen.rand_scale(rng)
    for _ in range(40):
        a = rng.normal(size=m) * scale
        b = a - np.abs(rng.normal(size=m)) * scale * 10 ** rng.uniform(-6, 0) if rng.random() < 0.5 else rng.normal(size=m) * scale
        if rng.random() < 0.3:  # near a facet
            u = gen.interior_dir(W)
            n = int(rng.integers(len(W)))
            v = rng.normal(size=m)
            v -= (v @ W[n]) / (W[n] @ W[n]) * W[n]
            b = a - (v * scale + W[n] * scale * rng.choice([1e-3, -1e-3, 1e-9, -1e-9]))
        dF = [Fraction(float(x)) - Fraction(float(y)) for x, y in zip(a, b)]
        vals = [sum(w * d for w, d in zip(row, dF)) for row in WF]
        mn = float(min(vals))
        mag = float(max(np.abs(a).max(), np.abs(b).max()))
        tol = 1e-12 * (1e-300 + mag)
        got = as_bool(order.dominates(gen.exotic(a, rng), gen.exotic(b, rng)) if rng.random() < 0.3 else order.dominates(a, b))
        decisive = abs(mn) > tol
        mon.event(case_hash("F", W, a, b), decisive, f"float/{label}")
        mon.count("float_events")
        if not decisive:
            mon.count("inside_band")
            continue
        if got != (mn >= 0):
            mon.violation("dominates:float-wrong", f"{label}: exact min facet value {mn:.3e} => {mn >= 0}, code {got}",
                          {"W": W, "a": a, "b": b})


def theta_geometry(mon, rng, theta):
    from vopy.ordering_cone import ConeTheta2D
    from vopy.order import ConeTheta2DOrder

    order = gen.make_order("theta", theta=theta)
    cone = order.ordering_cone
    W = cone.W
    if W.shape != (2, 2) or np.abs(np.linalg.norm(W, axis=1) - 1).max() > 1e-12:
        mon.violation("theta:not-unit-rows", f"theta={theta}: W={W}", {"theta": theta})
    ang = np.arange(0, 2 * np.pi, 1e-3) + rng.uniform(0, 1e-3)
    X = np.stack([np.cos(ang), np.sin(ang)], 1) * rng.choice([1e-3, 1.0, 50.0])
    inside = np.asarray(cone.is_inside(X))
    dev = np.abs(((ang - np.pi / 4 + np.pi) % (2 * np.pi)) - np.pi)  # angle to the diagonal
    half = np.radians(theta) / 2
    decisive = np.abs(dev - half) > 1e-9
    expected = dev <= half
    mon.count("theta_dirs", int(decisive.sum()))
    mon.event(case_hash("T", theta), True, f"theta/{'acute' if theta < 90 else 'right' if theta == 90 else 'obtuse'}")
    bad = decisive & (inside != expected)
    if bad.any():
        k = int(np.argmax(bad))
        mon.violation("theta:membership", f"theta={theta}: direction at {np.degrees(dev[k]):.4f} deg from diagonal: "
                      f"expected {bool(expected[k])}, is_inside {bool(inside[k])}", {"theta": theta, "x": X[k]})
    # order-level agrees
    if as_bool(order.dominates(X[5], np.zeros(2))) != bool(inside[5]):
        mon.violation("theta:dominates-vs-inside", f"theta={theta}", {"theta": theta})


def componentwise_geometry(mon, rng):
    for m in (2, 3, 4, 6):
        order = gen.make_order("orthant", m=m)
        X = rng.normal(size=(400, m))
        X[rng.random(size=X.shape) < 0.3] = 0.0
        X[:50] = np.abs(X[:50])
        ins = np.asarray(order.ordering_cone.is_inside(X))
        if (ins != (X >= 0).all(1)).any():
            mon.violation("orthant:membership", f"m={m}", {"m": m})
        mon.count("orthant_events", len(X))
        mon.event(case_hash("O", m), True, f"orthant/{m}")


def cone3d_geometry(mon, rng):
    for t in ("acute", "right", "obtuse"):
        order = gen.make_order("cone3d", type=t)
        W = order.ordering_cone.W
        ok = W.shape == (3, 3) and np.abs(np.linalg.norm(W, axis=1) - 1).max() < 1e-12 and (W @ np.ones(3) > 0).all()
        mon.count("cone3d_events")
        mon.event(case_hash("3", t), True, f"cone3d/{t}")
        if not ok:
            mon.violation("cone3d:geometry", f"{t}: rows not unit or diagonal outside: {W}", {"type": t})
        # acute/obtuse by the angle between diagonal and the extreme rays: compare with right cone
        if not as_bool(order.dominates(np.ones(3), np.zeros(3))):
            mon.violation("cone3d:diagonal", f"{t}: diagonal not inside", {"type": t})


def icecream_geometry(mon, rng, theta, K):
    order = gen.make_order("icecream", theta=theta, K=K)
    W = order.ordering_cone.W
    ctx = {"theta": theta, "K": K}
    mon.count("icecream_cones")
    mon.event(case_hash("I", theta, K), True, f"icecream/K{K}")
    if W.shape != (K, 3) or np.abs(np.linalg.norm(W, axis=1) - 1).max() > 1e-12:
        mon.violation("icecream:not-unit-rows", f"{ctx}", ctx)
        return
    a = W.mean(0)
    a /= np.linalg.norm(a)
    a_expected = np.array([0.5, 0.5, 1 / np.sqrt(2)])
    s = np.sin(np.radians(theta))
    if np.abs(W @ a - s).max() > 1e-9:
        mon.violation("icecream:not-tangent", f"{ctx}: w_i.a = {W @ a}, expected sin(theta)={s}", ctx)
    if np.abs(a - a_expected).max() > 1e-9:
        mon.violation("icecream:axis", f"{ctx}: axis {a}", ctx)
    # facets equally rotated about the axis
    c = np.cos(np.radians(theta))
    Pn = (W - np.outer(W @ a, a)) / c  # unit components orthogonal to a
    for i in range(K):
        # tangent ray of facet i lies on the circular cone and inside every other facet
        r = c * a - s * Pn[i]
        if abs(W[i] @ r) > 1e-9 or (W @ r < -1e-9).any():
            mon.violation("icecream:tangent-ray", f"{ctx}: facet {i}", ctx)
    # circular cone inscribed: boundary circle points satisfy all facets
    e1 = Pn[0]
    e2 = np.cross(a, e1)
    phi = np.linspace(0, 2 * np.pi, 720, endpoint=False)
    circ = c * a[None, :] + s * (np.cos(phi)[:, None] * e1 + np.sin(phi)[:, None] * e2)
    # NB: a ray at angle theta to the axis: cos(theta) a + sin(theta) p ; inside iff w.x >= 0
    vals = circ @ W.T
    if vals.min() < -1e-9:
        mon.violation("icecream:not-inscribed", f"{ctx}: min facet value on the circle {vals.min()}", ctx)
    inside = np.asarray(order.ordering_cone.is_inside(circ * 0.999 + 0.001 * a))
    if not inside.all():
        mon.violation("icecream:is_inside", f"{ctx}: interior ray rejected", ctx)
    mon.count("icecream_rays", len(phi) + K)


def shard(mon, tier, rng, shard_no, nshards):
    n = max(2, N[tier] // nshards)
    thetas = [0.5, 1, 10, 30, 45, 60, 89.9, 90, 90.1, 120, 135, 150, 179, 179.5]
    for i in range(n):
        lattice_exact(mon, rng)
        float_exact(mon, rng)
        float_exact(mon, rng)
        if i % 2 == 0:
            laws(mon, rng)
        th = thetas[(shard_no + i * nshards) % len(thetas)] if i < 2 else float(np.round(rng.uniform(0.2, 179.8), 3))
        theta_geometry(mon, rng, th)
    componentwise_geometry(mon, rng)
    cone3d_geometry(mon, rng)
    # one large batched call (thousands of rows, not a round number)
    label, order = gen.random_order(rng, int(rng.choice([2, 3])), rowscale_p=0.15)
    Wb = order.ordering_cone.W
    Xb = rng.normal(size=(int(rng.integers(4500, 9000)), Wb.shape[1]))
    insb = np.asarray(order.ordering_cone.is_inside(Xb))
    expb = (Xb @ Wb.T >= 0).all(axis=1)
    nearb = (np.abs(Xb @ Wb.T) < 1e-12).any(axis=1)
    mon.count("large_batch_rows", len(Xb))
    if insb.shape != (len(Xb),) or ((insb != expb) & ~nearb).any():
        mon.violation("is_inside:large-batch", f"{label}: batched is_inside over {len(Xb)} rows differs from the per-row facet test in "
                      f"{int(((insb != expb) & ~nearb).sum()) if insb.shape == (len(Xb),) else 'all'} rows", {"W": Wb, "n": len(Xb)})
    Ks = [3, 4, 5, 6, 8, 12, 24, 36]
    for j in range(2 if tier == "quick" else 12):
        icecream_geometry(mon, rng, float(np.round(rng.uniform(5, 85), 2)), int(Ks[(shard_no + j) % len(Ks)]))
    if len(mon.samples) < 2:
        mon.sample({"example": "dominates([1,0],[0,0]) under W=[[1,0],[1,1]] : exact values (1,1) => True"})


def replay(mon, rec):
    c = rec["case"]
    if "a" not in c:
        print("recorded case:", c)
        return
    W = np.array(c["W"], float)
    order = gen.make_order("W", W=W)
    a, b = np.array(c["a"], float), np.array(c["b"], float)
    vals = [sum(Fraction(float(w)) * (Fraction(float(x)) - Fraction(float(y))) for w, x, y in zip(row, a, b)) for row in W]
    got = as_bool(order.dominates(a, b))
    print(f"dominates={got}; exact facet values {[float(v) for v in vals]}")
    if got != (min(vals) >= 0):
        mon.violation(rec["mechanism"], "reproduced", c)
