"""C17 — cone constants alpha, u*, d1 and beta are the optima they are defined as.

alpha_n = max{w_n.x : Wx>=0, |x|<=1} = |P_C(w_n)| (Moreau) via NNLS; u*, d1 via least-distance
programming (Lawson-Hanson).  Each oracle value comes with an explicit primal point and dual
multiplier that sandwich it; the real constants must fall inside the sandwich +- tolerance."""
from __future__ import annotations

from types import SimpleNamespace

import numpy as np

from vmon import gen
from vmon.core import case_hash
from vmon.oracles import geometry as G

RULE = (
    "theta cones on a 0.5 deg grid over (0,180) plus random angles, ice-cream cones K=3..24 x half-angles "
    "5..85, the three 3-D cones, orthants m=2..5, random pointed cones in 2-4 dimensions with K=m..m+4 unit "
    "facets (incl. redundant facets). One event per (cone, constant). distinct = hash(W); non-trivial = cone "
    "is not an orthant (orthant constants are trivially 1)."
)
ASSUMPTIONS = ["scipy.optimize.nnls (Lawson-Hanson) proposes the certificates; they are checked in numpy",
               "tolerances: alpha 1e-6, d1 1e-6 relative, u* 1e-5 (solver accuracy of the code's cvxpy / SLSQP calls)"]
REQUIRE = {"quick": {"alpha_events": 1500, "ustar_events": 500, "beta_events": 300, "random_cones": 100,
                     "icecream_cones": 30, "Kgtm_cones": 60}}
TIMEOUT = {"quick": 900, "thorough": 3600}
TOL_A, TOL_D, TOL_U = 1e-6, 1e-6, 1e-5


def real_ustar(order, which):
    from vopy.algorithms.vogp import VOGP
    from vopy.algorithms.vogp_ad import VOGP_AD

    cls = VOGP if which == 0 else VOGP_AD
    fake = SimpleNamespace(order=order, m=order.ordering_cone.W.shape[1])
    return cls.compute_u_star(fake)


def check_cone(mon, label, order, rng, fam):
    cone = order.ordering_cone
    W = np.asarray(cone.W, float)
    K, m = W.shape
    h = case_hash("cone", W)
    nontriv = not fam.startswith("orthant")
    case = {"cone": label, "W": W}
    # ---- alpha -------------------------------------------------------------------------
    a_real = np.asarray(cone.alpha, float)
    if a_real.shape != (K, 1):
        mon.violation("alpha:shape", f"alpha shape {a_real.shape} for K={K}", case)
    a_real = a_real.reshape(-1)
    a_or, lo, hi = G.cone_alpha(W)
    for n in range(K):
        mon.event(h ^ (n + 1), nontriv, f"alpha/{fam}")
        mon.count("alpha_events")
        mon.stat_max("max_alpha_err", abs(a_real[n] - a_or[n]))
        if hi[n] - lo[n] > 1e-8:
            mon.count("oracle_wide")
            continue
        if not (lo[n] - TOL_A <= a_real[n] <= hi[n] + TOL_A):
            mon.violation("alpha:wrong", f"{label}: alpha[{n}]={a_real[n]!r}, certified in [{lo[n]!r},{hi[n]!r}]", {**case, "n": n})
    # ---- u*, d1 --------------------------------------------------------------------------
    u_or, d1_or, d1_lb, feas = G.cone_ustar(W)
    for which in (0, 1):
        try:
            u, d1 = real_ustar(order, which)
        except Exception as e:
            mon.violation(f"ustar:crash:{type(e).__name__}", f"{label}: {e!r}", case)
            continue
        u = np.asarray(u, float)
        mon.event(h ^ (1000 + which), nontriv, f"ustar/{fam}")
        mon.count("ustar_events")
        gap = max(0.0, d1_or - d1_lb)
        if u_or is None or gap > 1e-6 * (1 + d1_or) or feas < -1e-9:
            mon.count("oracle_wide")
            continue
        mon.stat_max("max_d1_relerr", abs(d1 - d1_or) / d1_or)
        mon.stat_max("max_ustar_err", float(np.abs(u - u_or).max()))
        if abs(np.linalg.norm(u) - 1) > 1e-9:
            mon.violation("ustar:not-unit", f"{label}: |u*|={np.linalg.norm(u)}", case)
        if (W @ u < -1e-9).any():
            mon.violation("ustar:outside-cone", f"{label}: W u* = {W @ u}", case)
        if abs(d1 - d1_or) > TOL_D * (1 + d1_or) + gap:
            mon.violation("ustar:d1-wrong", f"{label}: d1={d1!r}, certified [{d1_lb!r},{d1_or!r}]", case)
        elif np.abs(u - u_or).max() > TOL_U:
            mon.violation("ustar:direction-wrong", f"{label}: u*={u}, oracle {u_or}", case)
        # defining property: d1*u* satisfies every facet functional >= 1
        if (W @ (u * d1) < 1 - 1e-6).any():
            mon.violation("ustar:infeasible", f"{label}: W(d1 u*) = {W @ (u * d1)}", case)
    if len(mon.samples) < 3 and nontriv:
        mon.sample({"cone": label, "W": W, "alpha": a_real, "alpha_oracle": a_or, "u_star_oracle": u_or, "d1_oracle": d1_or})


def check_beta(mon, theta):
    order = gen.make_order("theta", theta=theta)
    cone = order.ordering_cone
    beta = float(cone.beta)
    th = np.radians(theta)
    exp = 1 / np.sin(th) if theta < 90 else 1.0
    mon.event(case_hash("beta", theta), True, "beta/" + ("acute" if theta < 90 else "obtuse"))
    mon.count("beta_events")
    if abs(beta - exp) > 1e-9 * exp:
        mon.violation("beta:wrong", f"theta={theta}: beta={beta}, expected {exp}", {"theta": theta})
    a_or, lo, hi = G.cone_alpha(cone.W)
    # reciprocal of alpha (oracle alpha, so an alpha defect does not mask a beta defect)
    if np.abs(beta * a_or - 1).max() > 1e-7 * beta:
        mon.violation("beta:not-reciprocal-of-alpha", f"theta={theta}: beta={beta}, alpha={a_or}", {"theta": theta})


def shard(mon, tier, rng, shard_no, nshards):
    grid = np.arange(0.5, 180, 0.5)
    mine = grid[shard_no::nshards]
    extra = np.round(rng.uniform(0.05, 179.95, size=40 if tier == "quick" else 400), 4)
    tiny = [0.005, 0.02, 179.995] if shard_no == 0 else []  # the ends of the open interval (0, 180)
    if shard_no == 2 % nshards:
        # cones that are almost, but not quite, the same, built one after another in one process (anything memoised on an
        # approximate comparison of W returns the earlier cone's constants — seeded/U04): thin cones, where alpha = sin(theta)
        # changes by tens of percent while W moves by 1e-6, and pairs 2e-4 degrees apart elsewhere
        tiny = tiny + [0.003, 0.002, 0.0031, 0.0025, 0.00305]
        for th0 in np.round(rng.uniform(0.01, 179.9, size=6), 3):
            tiny = tiny + [float(th0), float(th0) + 2e-4, float(th0) + 1e-4]
        mon.count("near_identical_cone_sweeps")
    if shard_no == 1 % nshards:
        # witnesses of D12 (SLSQP broke down silently on these cones; found by the thorough tier, seed 1)
        tiny = tiny + [108.846, 73.3121, 105.4614, 153.9907]
        W5 = np.array([[-0.6975060120497755, -0.7165789301636063], [-0.13678536621926007, -0.990600708453342], [-0.9732730410985271, -0.22965101234443688],
                       [0.7095937400200072, -0.7046110445660206], [0.5198133909327105, -0.8542798362404658]])
        check_cone(mon, "random5x2-d12", gen.make_order("W", W=W5), rng, "random2d")
        check_cone(mon, "icecream46.3-K22", gen.make_order("icecream", theta=46.3, K=22), rng, "icecream")
        mon.count("d12_witness_cones", 6)
    for th in list(mine) + list(extra) + tiny:
        th = float(th)
        order = gen.make_order("theta", theta=th)
        check_cone(mon, f"theta{th:g}", order, rng, "theta-" + ("acute" if th < 90 else "obtuse"))
        check_beta(mon, th)
    for m in (2, 3, 4, 5):
        if (m + shard_no) % 4 == 0:
            check_cone(mon, f"orthant{m}", gen.make_order("orthant", m=m), rng, "orthant")
    for t in ("acute", "right", "obtuse"):
        if shard_no % 3 == ("acute", "right", "obtuse").index(t):
            check_cone(mon, f"cone3d-{t}", gen.make_order("cone3d", type=t), rng, "cone3d")
    Ks = list(range(3, 25)) + [36, 48]
    for j in range(3 if tier == "quick" else 100):
        K = Ks[(shard_no * 3 + j) % len(Ks)]
        th = float(np.round(rng.uniform(5, 85), 2))
        mon.count("icecream_cones")
        if K > 3:
            mon.count("Kgtm_cones")
        check_cone(mon, f"icecream{th:g}-K{K}", gen.make_order("icecream", theta=th, K=K), rng, "icecream")
    # the caller re-uses the matrix it built the cone from (a sweep of cones from one scratch matrix)
    from vopy.order import PolyhedralConeOrder
    from vopy.ordering_cone import OrderingCone

    for j in range(2):
        m = int(rng.choice([2, 3]))
        scratch = G.random_cone(rng, m, m + 1)
        first = scratch.copy()
        order = PolyhedralConeOrder(OrderingCone(scratch))
        scratch[...] = G.random_cone(rng, m, m + 1)  # refilled for the next cone of the sweep
        mon.count("scratch_matrix_cones")
        if not np.array_equal(np.asarray(order.ordering_cone.W), first):
            mon.violation("cone:matrix-aliases-caller-array", "the cone's matrix changed when the caller refilled the array it was built from "
                          "(alpha was computed for the old matrix)", {"W_first": first, "W_now": order.ordering_cone.W})
        else:
            check_cone(mon, f"scratch{m + 1}x{m}", order, rng, f"random{m}d")
    for j in range(10 if tier == "quick" else 600):
        m = int(rng.choice([2, 3, 4, 4, 5, 6]))
        K = m + int(rng.integers(0, 5))
        W = G.random_cone(rng, m, K, min_interior=float(rng.choice([0.05, 0.2, 0.5])))
        if rng.random() < 0.2 and K > m:  # redundant facet: a positive combination of two others
            W[-1] = W[0] + W[1]
            W[-1] /= np.linalg.norm(W[-1])
        mon.count("random_cones")
        if K > m:
            mon.count("Kgtm_cones")
        check_cone(mon, f"random{K}x{m}", gen.make_order("W", W=W), rng, f"random{m}d")


def replay(mon, rec):
    c = rec["case"]
    W = np.array(c["W"], float)
    order = gen.make_order("W", W=W)
    print("alpha (code):", np.asarray(order.ordering_cone.alpha).reshape(-1), " oracle:", G.cone_alpha(W)[0])
    print("u*, d1 (code):", real_ustar(order, 0), " oracle:", G.cone_ustar(W)[:2])
    check_cone(mon, c.get("cone", "replay"), order, np.random.default_rng(0), "replay")
