"""C01 — valid confidence regions imply an epsilon-accurate Pareto set (PaVeBa family, Auer).

History + offline implication check: runs of the real algorithms on synthetic datasets with
adversarial stub posteriors / controlled observations that keep the truth inside the displayed
region; per round the monitor re-checks truth-in-region from the regions actually displayed; on
runs where the premise held in every round and the run terminated, the final P is judged with the
NNLS-gap and dominance oracles."""
from __future__ import annotations

import numpy as np

from vmon import runchecks, runs
from vmon.core import case_hash

RULE = (
    "PaVeBa, PaVeBaGP (IH, DE), PaVeBaPartialGP (rect, ellipsoid), Auer (default, empirical widths) x datasets (random, "
    "chains with gaps at {0.5,0.9,0.99,1.01,1.1,2} eps, incomparable pairs closer than eps, duplicates, lattices; K=1..10, "
    "m=2..3) x cones (all families; K=m only for the rectangle-mode variants) x contraction {1,8,32,64} x batch 1..3 x "
    "stub modes incl. adversarial and needle-shaped valid regions; directed K3 witness. One event per run. distinct = "
    "case seed; non-trivial = premise held in every round, run terminated, >=2 designs."
)
ASSUMPTIONS = ["only runs whose premise (truth inside every displayed region in every round) held and that terminated within the "
               "round cap contribute a verdict", "gap / cover decisions within 1e-6*scale of the threshold give no verdict",
               "budget-terminated PaVeBaPartialGP runs are excluded (the statement is for runs until no candidates remain)"]
N = {"quick": 200, "thorough": 6000}
VARS = ["PaVeBa", "PaVeBaGP-IH", "PaVeBaGP-DE", "PartialGP-rect", "PartialGP-ell", "Auer", "Auer-emp", "PaVeBaGP-IH", "PartialGP-rect"]
REQUIRE = {"quick": {"verdict_runs": 100, "premise_held_runs": 110, **{f"verdict::{v}": 5 for v in set(VARS) if v != "Auer-emp"}}}
TIMEOUT = {"quick": 1500, "thorough": 14400}


def make(rng, variant):
    over = {"K": int(rng.integers(1, 11)), "allow_Kgtm": variant not in ("PaVeBaGP-IH", "PartialGP-rect")}
    over["contraction"] = float(rng.choice([1, 8, 32, 64]))
    over["ds_family"] = str(rng.choice(["chain", "chain", "random", "dup", "tight", "lattice"]))
    if runs.VARIANTS[variant]["shape"] == "ell":
        over["K"] = min(over["K"], 6)
    elif rng.random() < 0.12 and variant not in ("PaVeBa",):
        over["K"] = int(rng.integers(12, 17))  # design indices with two digits, larger active sets
        over["contraction"] = 32.0
    if variant in ("PaVeBa",):
        over["contraction"] = float(rng.choice([8, 32, 64]))
        over["obs_mode"] = str(rng.choice(["controlled", "adversarial"]))
    if variant.startswith("Auer"):
        over["contraction"] = float(rng.choice([4, 16, 64]))
        over["obs_mode"] = str(rng.choice(["controlled", "adversarial"]))
    over["stub_mode"] = str(rng.choice(["random", "adversarial", "adversarial", "needle", "needle", "stubborn", "identical"]))
    case, order = runs.make_case(rng, variant, **over)
    if variant == "Auer-emp":
        case["hetero"] = (np.sqrt(case["noise_var"]) * 10 ** rng.uniform(-0.5, 0.5, size=(case["K"], case["m"]))).tolist()  # per (design, objective)
    case["max_rounds"] = 150
    return case, order


def judge_run(mon, tr, case, variant):
    mon.count("runs")
    if tr.ctor_crash or tr.crashed:
        mon.count("crashed_runs")
        return
    if tr.cap_reached or not tr.terminated:
        mon.count("cap_reached_runs")
        return
    if getattr(tr.alg, "cost_budget", np.inf) != np.inf and len(tr.alg.S) > 0:
        mon.count("budget_terminated_runs")
        return
    ok = runchecks.premise_holds(tr)
    if ok is None:
        mon.count("premise_unobservable_runs")
        return
    if not ok:
        mon.count("premise_failed_runs")
        return
    mon.count("premise_held_runs")
    rounds = sum(1 for s in tr.steps if not s.get("after_completion"))
    indet = runchecks.conclusion_c01(mon, tr)
    mon.count("verdict_runs")
    mon.count(f"verdict::{variant}")
    if indet:
        mon.count("runs_with_indeterminate_design")
    mon.event(case_hash("c01", case["seed"]), case["K"] >= 2 and rounds >= 1, f"{variant}/{case['cone']}/{case['ds_family']}")
    if len(mon.samples) < 3:
        mon.sample({"variant": variant, "cone": case["cone"], "mu": case["mu"], "eps": case["eps"], "P": sorted(tr.alg.P), "rounds": rounds,
                    "stub_mode": case["stub_mode"], "obs_mode": case["obs_mode"]})


def directed_k3(mon):
    """K3 witness: rectangle-mode PaVeBaGP under the 135 degree cone, eps=0.1, mu1-mu0 = 0.09*(1,1), a needle-shaped
    valid region for design 0 and a tight one for design 1."""
    from vmon import gen, runstubs

    rng = np.random.default_rng(33)
    for variant in ("PaVeBaGP-IH", "PartialGP-rect"):
        mu = np.array([[0.0, 0.0], [0.09, 0.09]])
        case, order = runs.make_case(rng, variant, m=2, K=2, mu=mu, eps=0.1, scale=0.3, cone_families=["theta"], contraction=1.0, batch=1)
        order = gen.make_order("theta", theta=135.0)
        case["cone"], case["W"] = "theta135", order.ordering_cone.W
        case["fixed_boxes"] = ([[0.145, 0.0], [0.09, 0.09]], [[0.15, 1e-4], [1e-4, 1e-4]])
        case["stub_mode"] = "fixed-needle"
        case["max_rounds"] = 10
        tr = runs.run_case(case, order, mon, max_extra_steps=0)
        judge_run(mon, tr, case, variant)


def directed_auer(mon, rng):
    """adversarial estimates around a Pareto design and a design just below it (exposes unsound Auer discarding)."""
    for variant in ("Auer", "PaVeBa"):
        for g in (0.02, 0.1, 0.4):
            mu = np.array([[0.0, 0.0], [-g, -g], [1.5, -1.5]])
            case, order = runs.make_case(rng, variant, m=2, K=3, mu=mu, eps=0.5 * g, scale=1.0, contraction=float(rng.choice([4, 8, 16])),
                                         obs_mode="adversarial", cone_families=["orthant"], noise_var=0.05)
            case["max_rounds"] = 60
            tr = runs.run_case(case, order, mon, max_extra_steps=0)
            judge_run(mon, tr, case, variant)
    # epsilon exactly 0 (exact identification): well separated designs so that the runs end (seeded/Z04)
    for variant in ("Auer", "PaVeBa", "Auer-emp"):
        K = int(rng.integers(3, 6))
        case, order = runs.make_case(rng, variant, m=2, K=K, eps=0.0, scale=1.0, ds_family=str(rng.choice(["random", "chain"])),
                                     contraction=float(rng.choice([8, 16])), obs_mode=str(rng.choice(["adversarial", "controlled"])), noise_var=0.05)
        case["max_rounds"] = 150
        tr = runs.run_case(case, order, mon, max_extra_steps=0)
        mon.count("eps_zero_runs")
        if tr.terminated:
            mon.count("eps_zero_runs_terminated")
        judge_run(mon, tr, case, variant)


def directed_many_designs(mon, rng):
    """13-16 designs on chain datasets (two-digit indices, many heterogeneous cover relations)"""
    variant = str(rng.choice(["PaVeBaGP-IH", "PartialGP-rect"]))
    case, order = runs.make_case(rng, variant, K=int(rng.integers(13, 17)), m=2, ds_family="chain", cone_families=["orthant", "theta"],
                                 contraction=float(rng.choice([8, 32])), stub_mode=str(rng.choice(["random", "adversarial"])), batch=1)
    case["max_rounds"] = 60
    tr = runs.run_case(case, order, mon, max_extra_steps=0)
    mon.count("many_design_runs")
    judge_run(mon, tr, case, variant)


def shard(mon, tier, rng, shard_no, nshards):
    if shard_no % 2 == 1 or tier == "thorough":
        for _ in range(1 if tier == "quick" else 6):
            directed_many_designs(mon, rng)
    if shard_no == 0:
        directed_k3(mon)
    if shard_no < 6:
        directed_auer(mon, rng)
    n = max(len(VARS), N[tier] // nshards)
    for it in range(n):
        variant = VARS[(it + shard_no) % len(VARS)]
        case, order = make(rng, variant)
        tr = runs.run_case(case, order, mon, max_extra_steps=0)
        judge_run(mon, tr, case, variant)


def replay(mon, rec):
    def chk(mon, tr):
        print("premise held:", runchecks.premise_holds(tr), "P =", sorted(tr.alg.P))
        runchecks.conclusion_c01(mon, tr)
    runs.replay_runs(mon, rec, chk)
