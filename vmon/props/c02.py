"""C02 — a design is eliminated only on, and always on, a confidence-region certificate.

Invariant at phase hooks: the `discarding` phase of every round is wrapped on the real algorithm
instance; the monitor snapshots S, P, U, the displayed regions and the pessimistic set actually
returned, then recomputes the reference transition with the independent geometry oracles
(three-valued: must-discard / must-keep / either)."""
from __future__ import annotations

import numpy as np

from vmon import runchecks, runs
from vmon.core import case_hash

RULE = (
    "every (round, candidate design) of stub-driven / controlled runs of PaVeBa, PaVeBaGP (IH, DE), PaVeBaPartialGP "
    "(rect, ellipsoid), VOGP, epsilon-PAL, Auer (default and empirical widths): cones incl. K>m where supported, stub "
    "modes random / adversarial / identical / lattice-touching / stubborn / needle, K=1..10, single-design active "
    "sets. One event per (round, design). distinct = (case seed, round, design); non-trivial = the oracle demands an "
    "outcome (must-discard or must-keep with at least one potential witness)."
)
ASSUMPTIONS = ["the pessimistic set is taken as observed (its correctness is C11's question)",
               "bands: rectangles 1e-12 rel for domination (closed form), ellipsoids 2e-6+1e-4*mag"]
N = {"quick": 190, "thorough": 3500}
VARS = ["PaVeBa", "PaVeBaGP-IH", "PaVeBaGP-DE", "PartialGP-rect", "PartialGP-ell", "VOGP", "EpsilonPAL", "Auer", "Auer-emp", "VOGP", "EpsilonPAL"]
REQUIRE = {"quick": {"runs_reaching_200_rounds": 4, "must_discard": 300, "must_keep": 1500, "runs": 150, "vogp_ad_runs": 10, "frozen_witness_scenario_reached": 2, "large_pessimistic_set_runs": 3, "pessimistic_set_above_64_seen": 1, "frozen_witness_bandit_scenario_reached": 1, "auer_certified_only_by_per_objective_sum": 10,
                     **{f"must_discard::{v}": 5 for v in set(VARS)}, **{f"must_keep::{v}": 20 for v in set(VARS)}}}
TIMEOUT = {"quick": 1500, "thorough": 14400}


def make(rng, variant):
    over = {"K": int(rng.integers(1, 11)), "allow_Kgtm": variant not in ("PaVeBaGP-IH", "PartialGP-rect")}
    over["contraction"] = float(rng.choice([2, 8, 32]))
    if variant in ("PaVeBa", "Auer", "Auer-emp"):
        over["contraction"] = float(rng.choice([4, 16, 64]))
    if variant == "PaVeBa":
        over["contraction"] = float(rng.choice([1, 2, 4, 16]))  # wider balls: runs last more than one round
    if runs.VARIANTS[variant]["shape"] == "ell":
        over["K"] = min(over["K"], 6)
    elif rng.random() < 0.12 and variant not in ("PaVeBa",):
        over["K"] = int(rng.integers(12, 17))  # design indices with two digits, larger active sets
        over["contraction"] = 32.0
    case, order = runs.make_case(rng, variant, **over)
    if variant == "Auer-emp":
        case["hetero"] = (np.sqrt(case["noise_var"]) * 10 ** rng.uniform(-1, 1, size=(case["K"], case["m"]))).tolist()  # per (design, objective)
    case["max_rounds"] = 80
    return case, order


def directed_frozen_witness(mon):
    """A member of P that is no longer useful keeps a frozen region; a candidate's refreshed region later falls
    entirely below that stale region while no ACTIVE region dominates it.  The reference transition only accepts
    active witnesses (S and U), so an elimination on the stale region is unjustified.  (Found by an independently
    seeded change, seeded/C02-pavebagp-discard-witness-P.)"""
    rng = np.random.default_rng(202)
    e = 0.1
    mu = np.array([[0.0, 0.0], [-0.6 * e, -0.6 * e], [0.5 * e, -1.0 * e]])
    # version 0 is used by the first acquisition call, version 1 = round 1, version 2 = round 2, ...
    r1_c = [[0.0, 0.0], [-0.6 * e + 0.97 * 0.4 * e, -0.6 * e + 0.97 * 0.4 * e], [0.5 * e, -1.2 * e]]
    r1_h = [[0.05 * e, 0.05 * e], [0.4 * e, 0.4 * e], [0.2 * e, 1.8 * e]]
    r2_c = [[0.0, 0.0], [-0.6 * e, -0.6 * e], [0.5 * e, -1.2 * e]]
    r2_h = [[0.05 * e, 0.05 * e], [0.1 * e, 0.1 * e], [0.2 * e, 1.8 * e]]
    for variant in ("PaVeBaGP-IH", "PartialGP-rect"):
        case, order = runs.make_case(rng, variant, m=2, K=3, mu=mu, eps=e, scale=0.3, cone_families=["orthant"], contraction=1.0, batch=1)
        case["fixed_boxes"] = ([r1_c, r1_c, r2_c], [r1_h, r1_h, r2_h])
        case["stub_mode"] = "frozen-witness"
        case["max_rounds"] = 4
        tr = runs.run_case(case, order, mon, max_extra_steps=0)
        mon.count("runs")
        mon.count("directed_frozen_witness_runs")
        for st in tr.steps:
            if st["crash"] is None:
                runchecks.check_discard(mon, tr, st)
        if len(tr.steps) >= 2:
            st = tr.steps[1]
            if 0 in (st["pre"][1] or set()) and 0 not in (st["pre"][2] or set()) and 1 in st["pre"][0]:
                mon.count("frozen_witness_scenario_reached")


def directed_large_pessimistic_set(mon, rng, variant):
    """66-80 mutually incomparable designs (all in the pessimistic set) plus a few designs each dominated by exactly ONE front
    design; the witnesses are the front designs with the highest indices, i.e. the last ones any ordered scan reaches.  Exposes
    caps / truncations of the witness pool that only bite above a size threshold (seeded/Z03-vogp-witnesses-first-64)."""
    nf = int(rng.integers(66, 81))
    nd = int(rng.integers(3, 7))
    t = (np.arange(nf) + 0.5) / nf
    front = np.stack([t, 1.0 - t], axis=1)
    gap = 1.0 / nf
    wit = list(range(nf - nd, nf)) if rng.random() < 0.6 else sorted(rng.choice(nf, size=nd, replace=False).tolist())
    dom = front[wit] - 0.3 * gap
    mu = np.vstack([dom, front]) if rng.random() < 0.5 else np.vstack([front, dom])
    h = 0.02 * gap
    case, order = runs.make_case(rng, variant, m=2, K=len(mu), mu=mu, eps=0.01 * gap, scale=1.0, cone_families=["orthant"], contraction=1.0, batch=1)
    case["fixed_boxes"] = (mu.tolist(), np.full_like(mu, h).tolist())
    case["stub_mode"] = "large-pessimistic-set"
    case["max_rounds"] = 1
    tr = runs.run_case(case, order, mon, max_extra_steps=0)
    mon.count("runs")
    mon.count("large_pessimistic_set_runs")
    for st in tr.steps:
        if st["crash"] is None:
            runchecks.check_discard(mon, tr, st)
            if st.get("pess") is not None and len(st["pess"]) > 64:
                mon.count("pessimistic_set_above_64_seen")


LONG = ["Auer", "PaVeBaGP-IH", "VOGP", "Auer-emp", "EpsilonPAL", "PartialGP-rect", "PaVeBaGP-DE", "PaVeBa"]


def long_run(mon, rng, k):
    """260-330 rounds of the same few designs (anything periodic in the round counter is passed several times)"""
    variant = LONG[k % len(LONG)]
    case, order = runs.long_case(rng, variant)
    tr = runs.run_case(case, order, mon, max_extra_steps=0)
    mon.count("runs")
    mon.count("long_runs")
    for st in tr.steps:
        if st["crash"] is None:
            runchecks.check_discard(mon, tr, st)


def ad_run(mon, rng):
    """VOGP_AD on a user-defined continuous problem (real GP): the same reference transition on tree nodes"""
    case, order = runs.make_ad_case(rng)
    case["max_rounds"] = 60
    tr = runs.run_ad_case(case, order, mon)
    mon.count("runs")
    mon.count("vogp_ad_runs")
    for st in tr.steps:
        if st["crash"] is None and not st.get("after_completion"):
            runchecks.check_discard(mon, tr, st)
            # the witnesses must come from the pessimistic Pareto set of the CURRENT active nodes (2x2 cones: exact oracle)
            runchecks.check_pess(mon, tr, st)


def directed_auer_emp(mon, rng):
    """Auer with empirical widths under strongly heteroscedastic noise per (design, objective): the per-objective widths
    differ, so 'summed widths in every objective' differs from 'sum of the two largest widths'.  (seeded/C02b-auer-max-of-widths)"""
    K = int(rng.integers(3, 7)) if rng.random() < 0.65 else int(rng.integers(9, 21))  # >= 9: set iteration order is no longer ascending
    m = int(rng.choice([2, 3]))
    case, order = runs.make_case(rng, "Auer-emp", K=K, m=m, scale=10.0, ds_family=str(rng.choice(["random", "chain"])), eps=1.0,
                                 contraction=float(rng.choice([1, 2, 4])), noise_var=1.0)
    case["hetero"] = (10 ** rng.uniform(-0.7, 1.0, size=(K, m))).tolist()
    case["max_rounds"] = 80
    tr = runs.run_case(case, order, mon, max_extra_steps=0)
    mon.count("runs")
    for st in tr.steps:
        if st["crash"] is None:
            runchecks.check_discard(mon, tr, st)


def directed_frozen_witness_bandit(mon):
    """the same stale-witness scenario for the bandit PaVeBa (ball regions of the algorithm's own radius r_t): centres for
    rounds 1 and 2 are found by a seeded random search against the oracle truth table, then realised by scripted observations."""
    from vmon.oracles import geometry as G

    rng = np.random.default_rng(2021)
    e = 0.1
    mu = np.array([[0.0, 0.0], [-0.6 * e, -0.6 * e], [0.5 * e, -0.3 * e]])
    case, order = runs.make_case(rng, "PaVeBa", m=2, K=3, mu=mu, eps=e, scale=0.3, cone_families=["orthant"], contraction=1.0, noise_var=0.01)
    # radius of rounds 1, 2 at contraction 1, then pick the contraction that makes r1 = 0.3 eps
    alg0, _ = runs.build_algorithm(case, order)
    alg0.round = 1
    raw1 = float(alg0.compute_radius())
    alg0.round = 2
    raw2 = float(alg0.compute_radius())
    c = raw1 / (0.3 * e)
    r1, r2 = raw1 / c, raw2 / c
    W = case["W"]
    I2 = np.eye(2)
    sl = np.asarray(alg0.cone_alpha_eps, float)
    tau = 1e-3 * e

    def dom(ci, ri, cj, rj):  # is ball i dominated by ball j (zero slack)
        return G.ell_dominated_margin(W, ci, I2, ri, cj, I2, rj, 0.0)[0]

    def cov(ci, ri, cj, rj):  # can ball j cover ball i by the eps-slack
        lo, hi = G.ell_covered_margin(W, ci, I2, ri, cj, I2, rj, sl)
        return lo if lo > 0 else hi

    found = None
    for _ in range(20000):
        c0 = np.zeros(2)
        c1a = -rng.uniform(0.3, 0.6, size=2) * e
        c2a = c1a + rng.uniform(-1.0, 1.5, size=2) * e
        c1b = c1a - rng.uniform(0.0, 0.4, size=2) * e
        c2b = c2a + rng.uniform(-0.2, 0.2, size=2) * e
        B = {0: c0, 1: c1a, 2: c2a}
        ok = all(dom(B[i], r1, B[j], r1) < -tau for i in B for j in B if i != j)  # nobody discarded in round 1
        ok = ok and cov(B[0], r1, B[1], r1) < -tau and cov(B[0], r1, B[2], r1) < -tau  # 0 admitted
        ok = ok and cov(B[1], r1, B[2], r1) > tau  # 1 held by 2
        ok = ok and cov(B[1], r1, B[0], r1) < -tau and cov(B[2], r1, B[0], r1) < -tau  # 0 not useful
        ok = ok and dom(c1b, r2, c0, r1) > tau  # round 2: the stale ball of 0 dominates the refreshed ball of 1
        ok = ok and dom(c1b, r2, c2b, r2) < -tau and dom(c2b, r2, c1b, r2) < -tau  # no active certificate
        if ok:
            found = ([c0, c1a, c2a], [c0, c1b, c2b])
            break
    if found is None:
        mon.count("bandit_scenario_search_failed")
        return
    case["contraction"] = float(c)
    case["script"] = [[v.tolist() for v in found[0]], [v.tolist() for v in found[1]]]
    case["obs_mode"] = "scripted"
    case["max_rounds"] = 3
    tr = runs.run_case(case, order, mon, max_extra_steps=0)
    mon.count("runs")
    for st in tr.steps:
        if st["crash"] is None:
            runchecks.check_discard(mon, tr, st)
    if len(tr.steps) >= 2:
        st = tr.steps[1]
        if 0 in (st["pre"][1] or set()) and 0 not in (st["pre"][2] or set()) and 1 in st["pre"][0]:
            mon.count("frozen_witness_bandit_scenario_reached")


def shard(mon, tier, rng, shard_no, nshards):
    for j in range(1 if tier == "quick" else 4):
        if tier == "thorough" or shard_no % 2 == 0:
            long_run(mon, rng, shard_no // 2 + j)
    if shard_no == 1 % nshards:
        directed_frozen_witness_bandit(mon)
    for _ in range(1 if tier == "quick" else 6):
        ad_run(mon, rng)
    for _ in range(4 if tier == "quick" else 20):
        directed_auer_emp(mon, rng)
    n = max(len(VARS), N[tier] // nshards)
    if shard_no == 0:
        directed_frozen_witness(mon)
    big = {2: "VOGP", 3: "EpsilonPAL", 4: "PaVeBaGP-IH", 5: "VOGP"}
    if shard_no % nshards in big or nshards < 6:
        directed_large_pessimistic_set(mon, rng, big.get(shard_no, "VOGP"))
    for it in range(n):
        variant = VARS[(it + shard_no) % len(VARS)]
        case, order = make(rng, variant)
        if tier == "thorough" and it % 20 == 7 and runs.VARIANTS[variant]["algo"] in ("VOGP", "EpsilonPAL", "PaVeBaGP", "PaVeBaPartialGP"):
            # the real GP wrapper, fitted by the real factory helper on the K designs: standardised values, enough designs and a
            # noise level for which the fit is well conditioned (a degenerate fit is detected and skipped by run_case)
            case, order = runs.make_case(rng, variant, K=int(rng.integers(8, 13)), scale=1.0, ds_family="random", noise_var=0.01, eps=0.3,
                                         contraction=16.0, model="real", allow_Kgtm=False, batch=int(rng.choice([1, 2])))
            case["max_rounds"] = 40
            mon.count("real_model_runs")
        tr = runs.run_case(case, order, mon, max_extra_steps=0)
        mon.count("runs")
        if tr.ctor_crash:
            mon.count("crashed_runs")
            continue
        for st in tr.steps:
            if st["crash"] is None:
                runchecks.check_discard(mon, tr, st)
            else:
                mon.count("crashed_runs")
        if len(mon.samples) < 3 and tr.steps:
            ph = runchecks.phase(tr.steps[0], "discarding")
            if ph:
                mon.sample({"variant": variant, "cone": case["cone"], "S_before": sorted(ph["pre"][0]), "S_after": sorted(ph["post"][0]),
                            "pess": sorted(tr.steps[0].get("pess") or []), "regions": {k: v[1:] for k, v in list(ph["regions"].items())[:3]}})


def replay(mon, rec):
    def chk(mon, tr):
        for st in tr.steps:
            if st["crash"] is None:
                runchecks.check_discard(mon, tr, st)
    runs.replay_runs(mon, rec, chk)
