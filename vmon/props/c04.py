"""C04 — at contraction 1 the confidence schedules are valid with probability >= 1-delta.

The real compute_radius / compute_alpha / compute_beta are called on real algorithm objects with
`round` set to t; the returned scale is fed, together with a posterior of KNOWN mean and covariance,
through the real design_space.update; the monitor reads back the region and computes the exact miss
probability of the region actually built (Gaussian tails per objective for boxes, (non)central chi-square
for ellipsoids), then sums it over designs and rounds: exactly for t <= T0, by dyadic blocks 2^k p(2^k) up
to t = 2^401 (p observed non-increasing at every sampled t), plus a tail term assuming the observed
t^-2-or-faster decay continues.  This is the bounded-horizon restatement of "all rounds"."""
from __future__ import annotations

import numpy as np

from vmon import algos, gen, stubs
from vmon.core import case_hash

RULE = (
    "K in {1,2,5,32,500,10000}, m in 2..6, delta 1e-6..0.999, noise variance 1e-4..1e2 (Auer <= 1), posterior "
    "variances 1e-6..1e2 (diag and full covariance), all eight schedule variants (PaVeBa, PaVeBaGP IH/DE, "
    "PaVeBaPartialGP rect/ellipsoid, VOGP, epsilon-PAL, Auer default). One event per (variant, configuration); "
    "each evaluates the real schedule at T0 + ~400 + sampled rounds. distinct = hash(variant, K, m, delta, "
    "variances); non-trivial = summed miss probability > 1e-12*delta."
)
ASSUMPTIONS = [
    "horizon: exact for t<=T0 (512 quick / 4096 thorough), dyadic upper bound to 2^401, tail 2^401*p(2^401) assuming "
    "the observed decay (at least t^-2) continues beyond",
    "`round` is a Python int up to 2^62 and a float stand-in beyond (a real run cannot reach it)",
    "union bound over designs, objectives and rounds as the property states; all K designs active in every round",
    "Auer: default (non-empirical) schedule only, noise variance <= 1",
]
N = {"quick": 48, "thorough": 480}
REQUIRE = {"quick": {"configs": 300, "variants_seen": 8, "modeling_path_checked": 200, "monotone_samples": 5000, "correlated_posterior_configs": 100}}
TIMEOUT = {"quick": 1200, "thorough": 5400}
VARIANTS = ["PaVeBa", "PaVeBaGP-IH", "PaVeBaGP-DE", "PaVeBaPartialGP-rect", "PaVeBaPartialGP-ell", "VOGP", "EpsilonPAL", "Auer"]
KMAX = 401


class KnownPosterior:
    """posterior with a known mean and covariance for every design."""

    def __init__(self, m, cov):
        self.m, self.cov = m, np.asarray(cov, float)
        self.mean = np.linspace(-1, 1, m)

    def predict(self, X):
        n = len(X)
        return np.repeat(self.mean[None], n, 0), np.repeat(self.cov[None], n, 0)

    def add_sample(self, *a, **k):
        pass

    def update(self):
        pass

    def train(self):
        pass


def miss_probability(region, centre_truth_mean, err_cov):
    """P(truth outside region) for truth ~ N(centre_truth_mean, err_cov). Returns (lower, upper).
    boxes: union bound over objectives (as the property states); ellipsoids: chi-square in the metric of
    the known covariance, exact when the region's shape matrix is proportional to it."""
    from scipy.stats import chi2, ncx2, norm

    if hasattr(region, "lower"):
        sd = np.sqrt(np.diag(err_cov))
        lo, hi = np.asarray(region.lower, float), np.asarray(region.upper, float)
        p = norm.sf((hi - centre_truth_mean) / sd) + norm.sf((centre_truth_mean - lo) / sd)
        return float(p.sum()), float(p.sum())
    c, S, a = np.asarray(region.center, float), np.asarray(region.sigma, float), float(np.asarray(region.alpha).reshape(-1)[0])
    m = len(c)
    Lc = np.linalg.cholesky(err_cov)
    A = Lc.T @ np.linalg.inv(S) @ Lc
    ev = np.linalg.eigvalsh((A + A.T) / 2)
    b = np.linalg.solve(Lc, centre_truth_mean - c)
    nc = float(b @ b)
    # region in whitened space: (y+b)'A(y+b) <= a^2 ; contained in ball radius a/sqrt(ev.min), contains ball a/sqrt(ev.max)
    if nc < 1e-24:
        lower = float(chi2.sf(a * a / ev.min(), m))
        upper = float(chi2.sf(a * a / ev.max(), m))
    else:
        lower = float(ncx2.sf(a * a / ev.min(), m, nc))
        upper = float(ncx2.sf(a * a / ev.max(), m, nc))
    return lower, upper


def make_alg(variant, K, m, delta, noise_var, post_cov):
    X = np.random.default_rng(K).random((K, 2)) if K > 64 else stubs.grid_inputs(K, 2)
    Y = np.zeros((K, m))
    name = stubs.install_dataset(X, Y, exact=True)
    order = gen.make_order("orthant", m=m)
    stub = KnownPosterior(m, post_cov)
    try:
        if variant == "PaVeBa":
            alg = algos.build("PaVeBa", dataset_name=name, order=order, delta=delta, noise_var=noise_var)
        elif variant == "Auer":
            alg = algos.build("Auer", dataset_name=name, delta=delta, noise_var=noise_var)
        elif variant.startswith("PaVeBaGP"):
            alg = algos.build("PaVeBaGP", dataset_name=name, order=order, delta=delta, noise_var=noise_var, stub=stub,
                              type=variant.split("-")[1])
        elif variant.startswith("PaVeBaPartialGP"):
            alg = algos.build("PaVeBaPartialGP", dataset_name=name, order=order, delta=delta, noise_var=noise_var, stub=stub,
                              confidence_type="hyperrectangle" if variant.endswith("rect") else "hyperellipsoid")
        elif variant == "VOGP":
            alg = algos.build("VOGP", dataset_name=name, order=order, delta=delta, noise_var=noise_var, stub=stub)
        else:
            alg = algos.build("EpsilonPAL", dataset_name=name, delta=delta, noise_var=noise_var, stub=stub)
    finally:
        stubs.remove_dataset(name)
    return alg, stub


def schedule_fn(variant):
    return {"PaVeBa": "compute_radius", "Auer": "compute_beta", "VOGP": "compute_beta", "EpsilonPAL": "compute_beta"}.get(variant, "compute_alpha")


def config(mon, rng, variant, tier):
    K = int(rng.choice([1, 2, 5, 32, 500, 10000], p=[0.2, 0.2, 0.2, 0.2, 0.15, 0.05]))
    m = int(rng.integers(2, 7))
    delta = float(rng.choice([10 ** rng.uniform(-6, -0.3), rng.uniform(0.5, 0.999), 0.999, 10 ** rng.uniform(-40, -10)]))  # any delta in (0,1)
    bandit = variant in ("PaVeBa", "Auer")
    noise_var = float(10 ** rng.uniform(-4, 0 if variant == "Auer" else 2))
    if variant == "Auer" and rng.random() < 0.3:
        noise_var = 1.0
    if variant in ("PaVeBaGP-DE", "PaVeBaPartialGP-ell") or (variant in ("VOGP", "PaVeBaGP-IH", "EpsilonPAL", "PaVeBaPartialGP-rect") and rng.random() < 0.5):
        # a correlated posterior: the ellipsoid uses all of it, the rectangle must extend scale*sqrt(diagonal)
        mon.count("correlated_posterior_configs")
        Q = np.linalg.qr(rng.normal(size=(m, m)))[0]
        post_cov = Q @ np.diag(10 ** rng.uniform(-6, 2, size=m)) @ Q.T
        post_cov = (post_cov + post_cov.T) / 2
    else:
        post_cov = np.diag(10 ** rng.uniform(-6, 2, size=m))
    try:
        alg, stub = make_alg(variant, K, m, delta, noise_var, post_cov)
    except Exception as e:
        mon.violation(f"schedule:ctor-crash:{type(e).__name__}:{variant}", repr(e), {"K": K, "m": m})
        return
    first = 0 if variant in ("VOGP", "EpsilonPAL") else 1
    fn = getattr(alg, schedule_fn(variant))
    case = {"variant": variant, "K": K, "m": m, "delta": delta, "noise_var": noise_var, "post_cov_diag": np.diag(post_cov)}
    if variant == "Auer":
        alg.S = {0}
    if bandit:
        alg.model.update()  # statistics of "no samples yet": zero means (the centre stands for the empirical mean)

    def p_round(t):
        """t = 1,2,3,... (the t-th time regions are built). Returns (lower, upper) miss probability of ONE design."""
        rnd = (t - 1) if first == 0 else t
        alg.round = rnd
        scale = fn()
        model = alg.model
        alg.design_space.update(model, np.asarray(scale), [0])
        region = alg.design_space.confidence_regions[0]
        if bandit:
            # empirical mean of t samples: error law N(0, noise_var/t I); the model (no samples) predicts the centre
            centre = np.asarray(model.predict(alg.design_space.points[[0]])[0][0], float)
            return miss_probability(region, centre, np.eye(m) * noise_var / float(t))
        return miss_probability(region, stub.mean, post_cov)

    T0 = 512 if tier == "quick" else 4096
    k0 = int(np.log2(T0))
    try:
        exact = [p_round(t) for t in range(1, T0)]
        lo_sum = sum(p[0] for p in exact)
        hi_sum = sum(p[1] for p in exact)
        prev = exact[-1][1]
        blocks = []
        for k in range(k0, KMAX + 1):
            t = 2**k if k <= 61 else float(2**k)
            pk = p_round(t)
            blocks.append(pk)
            hi_sum += float(2**k) * pk[1]
            if k > k0:  # rigorous lower bound for block [2^(k-1), 2^k): every term >= p(2^k) (monotone)
                lo_sum += float(2 ** (k - 1)) * pk[0]
            # monotonicity: p non-increasing (needed for the dyadic bound)
            if pk[1] > prev * (1 + 1e-9) + 1e-300:
                mon.count(f"inconclusive::schedule of {variant} not monotone: dyadic bound does not apply")
            prev = pk[1]
            mon.count("monotone_samples")
        # random t inside blocks
        for _ in range(12):
            k = int(rng.integers(k0, 61))
            t = int(rng.integers(2**k, 2 ** (k + 1)))
            pt = p_round(t)
            mon.count("monotone_samples")
            if pt[1] > blocks[k - k0][1] * (1 + 1e-9) + 1e-300:
                mon.count(f"inconclusive::schedule of {variant} not monotone: dyadic bound does not apply")
        tail = float(2.0 ** (KMAX + 1)) * blocks[-1][1]
        # decay check behind the tail assumption: p(2^(k+1)) <= p(2^k)/4 * (1+slack) over the last blocks
        last = [b[1] for b in blocks[-20:]]
        decay_ok = all(last[i + 1] <= last[i] / 3.9 + 1e-300 for i in range(len(last) - 1))
        hi_sum += tail
    except Exception as e:
        mon.violation(f"schedule:crash:{type(e).__name__}:{variant}", f"{e!r}", case)
        return
    total_lo, total_hi = K * lo_sum, K * hi_sum
    mon.count("configs")
    mon.classes[f"variant/{variant}"] += 0
    mon.event(case_hash(variant, K, m, delta, noise_var, post_cov), total_hi > 1e-12 * delta, f"{variant}/K{K}/m{m}")
    mon.stat_max("worst_sum_over_delta", total_hi / delta)
    mon.stat_max(f"worst_sum_over_delta_{variant}", total_hi / delta)
    if not decay_ok:
        mon.count("tail_decay_assumption_not_observed")
    if total_lo > delta * (1 + 1e-9):
        mon.violation(f"schedule:invalid:{variant}", f"{variant}: K={K}, m={m}, delta={delta:.4g}: a rigorous LOWER bound on the summed miss probability "
                      f"(exact for t<{T0}, then 2^(k-1)*p(2^k) per dyadic block up to 2^{KMAX}) is {total_lo:.4g} > delta "
                      f"(exact part {K * sum(p[0] for p in exact):.4g})", case)
    elif total_hi > delta * (1 + 1e-9):
        # the upper bound alone does not refute validity
        mon.count(f"inconclusive::{variant}: upper bound on the summed miss probability exceeds delta but the lower bound does not")
    # the algorithm's own modeling() passes the same scale to the same update
    try:
        if variant == "Auer":
            alg.S = set(range(K))
        t = int(rng.integers(1, 50))
        alg.round = (t - 1) if first == 0 else t
        if hasattr(alg, "U"):
            alg.U = set()
        alg.modeling()
        r_mod = alg.design_space.confidence_regions[K - 1]
        snap = (np.array(r_mod.lower), np.array(r_mod.upper)) if hasattr(r_mod, "lower") else (np.array(r_mod.center), np.array(r_mod.sigma), float(np.asarray(r_mod.alpha).reshape(-1)[0]))
        if variant == "Auer":
            alg.S = {0}
        p_round(t)
        r0 = alg.design_space.confidence_regions[0]
        snap0 = (np.array(r0.lower), np.array(r0.upper)) if hasattr(r0, "lower") else (np.array(r0.center), np.array(r0.sigma), float(np.asarray(r0.alpha).reshape(-1)[0]))
        mon.count("modeling_path_checked")
        if not all(np.allclose(a, b, rtol=1e-12, atol=0) for a, b in zip(snap, snap0)):
            mon.violation(f"schedule:modeling-differs:{variant}", f"modeling() builds {snap}, schedule+update builds {snap0}", case)
    except Exception as e:
        mon.violation(f"schedule:modeling-crash:{type(e).__name__}:{variant}", repr(e), case)
    if len(mon.samples) < 3:
        mon.sample({**case, "sum_over_delta": total_hi / delta, "p_first_rounds": [p[1] for p in exact[:3]]})


def shard(mon, tier, rng, shard_no, nshards):
    n = max(1, N[tier] // nshards)
    for it in range(n):
        for v in VARIANTS:
            config(mon, rng, v, tier)
    mon.count("variants_seen", 0)
    seen = {k.split("/")[0] for k in mon.classes if not k.startswith("variant/")}
    mon.counters["variants_seen"] = len(seen & set(VARIANTS)) if shard_no == 0 else 0
