"""C05 — VOGP / epsilon-PAL keep epsilon-isolated optima; P is internally non-epsilon-dominated.

Same engine as C01: stub-driven and real-GP histories, premise re-checked per round from the
displayed hyper-rectangles, final P judged with the LDP oracle for u* (epsilon in every objective
for epsilon-PAL)."""
from __future__ import annotations

import numpy as np

from vmon import runchecks, runs
from vmon.core import case_hash

RULE = (
    "VOGP (all cone families incl. K>m facets) and epsilon-PAL x datasets (chains with gaps around eps, incomparable "
    "pairs, duplicates, lattices, tight clusters; K=1..10; m=2..3) x batch 1..4 x contraction {1,4,8,32} x stub modes "
    "(random, adversarial, needle, stubborn, identical, lattice-touching) and real correlated/independent GP models in "
    "the thorough tier. One event per run with a verdict. distinct = case seed; non-trivial = premise held, terminated, "
    ">=2 designs."
)
ASSUMPTIONS = ["only runs whose premise held in every round and that terminated within the round cap contribute a verdict",
               "a +-1e-6*scale band around 'isolated' / 'dominated by more than the slack' gives no verdict",
               "u* from the least-distance-programming oracle, not from the algorithm"]
N = {"quick": 240, "thorough": 7000}
VARS = ["VOGP", "EpsilonPAL", "VOGP"]
REQUIRE = {"quick": {"verdict_runs": 150, "isolated_designs": 150, "verdict::VOGP": 80, "verdict::EpsilonPAL": 40}}
TIMEOUT = {"quick": 1500, "thorough": 14400}


def make(rng, variant, real=False):
    over = {"K": int(rng.integers(1, 11)), "allow_Kgtm": True, "contraction": float(rng.choice([1, 4, 8, 32])),
            "batch": int(rng.choice([1, 1, 2, 3, 4])),
            "ds_family": str(rng.choice(["chain", "chain", "random", "dup", "tight", "lattice"])),
            "stub_mode": str(rng.choice(["random", "adversarial", "adversarial", "needle", "stubborn", "identical", "lattice"]))}
    if real:
        over.update(model="real", K=int(rng.integers(8, 13)), contraction=float(rng.choice([8, 32])), noise_var=0.01, scale=1.0,
                    ds_family="random", eps=0.3)
    case, order = runs.make_case(rng, variant, **over)
    case["max_rounds"] = 150
    return case, order


def shard(mon, tier, rng, shard_no, nshards):
    n = max(len(VARS), N[tier] // nshards)
    for it in range(n):
        variant = VARS[(it + shard_no) % len(VARS)]
        real = tier == "thorough" and it % 25 == 0
        case, order = make(rng, variant, real)
        tr = runs.run_case(case, order, mon, max_extra_steps=0)
        mon.count("runs")
        if tr.ctor_crash or tr.crashed:
            mon.count("crashed_runs")
            continue
        if tr.cap_reached or not tr.terminated:
            mon.count("cap_reached_runs")
            continue
        ok = runchecks.premise_holds(tr)
        if not ok:
            mon.count("premise_failed_runs" if ok is False else "premise_unobservable_runs")
            continue
        mon.count("premise_held_runs")
        if real:
            mon.count("real_model_verdicts")
        indet = runchecks.conclusion_c05(mon, tr)
        mon.count("verdict_runs")
        mon.count(f"verdict::{variant}")
        rounds = len(tr.steps)
        mon.event(case_hash("c05", case["seed"]), case["K"] >= 2, f"{variant}/{case['cone']}/{case['ds_family']}/{case['stub_mode']}")
        if len(mon.samples) < 3:
            mon.sample({"variant": variant, "cone": case["cone"], "mu": case["mu"], "eps": case["eps"], "P": sorted(tr.alg.P), "rounds": rounds,
                        "stub_mode": case["stub_mode"], "batch": case["batch"]})


def replay(mon, rec):
    def chk(mon, tr):
        print("premise held:", runchecks.premise_holds(tr), "P =", sorted(tr.alg.P))
        runchecks.conclusion_c05(mon, tr)
    runs.replay_runs(mon, rec, chk)
