"""C14 — displayed confidence regions are exactly the model's prediction scaled.

Invariant at the design_space.update hook (vmon.patching.UpdateWatch): after every update each
updated design's region is compared with model.predict on the FULL design matrix; all other
regions must be bit-identical to their snapshot.  icontract class invariant lower<=upper/finite on
RectangularConfidenceRegion runs after every public method."""
from __future__ import annotations

import numpy as np

from vmon import patching
from vmon.core import case_hash

RULE = (
    "update sequences (length up to 50) on FixedPointsDesignSpace (rectangle and ellipsoid) and "
    "AdaptivelyDiscretizedDesignSpace (with refinements in between), index subsets of size 1..N in random "
    "order with repeats and None, scalar / per-objective / per-design scales, models: stub with per-design "
    "distinguishable predictions (diag and full covariance), EmpiricalMeanVarModel, and the three real GP "
    "classes; iterative intersection by direct region updates and through the design space. One event per "
    "(update, design) comparison. distinct = hash(model kind, indices, scale); non-trivial = updated design."
)
ASSUMPTIONS = ["model.predict on all points is the reference for the per-design prediction (C15 judges predict itself)",
               "tolerance 1e-9 relative"]
N = {"quick": 50, "thorough": 6000}
REQUIRE = {"quick": {"updated_checked": 3000, "untouched_checked": 3000, "single_design_updates": 150,
                     "intersect_checked": 500, "gp_updates": 60, "single_design_gp_updates": 20,
                     "invariant_evals": 5000, "adaptive_updates": 50, "direct_intersect_events": 500, "inrun_runs": 20, "huge_updates": 6}}
TIMEOUT = {"quick": 900, "thorough": 3600}


class StubModel:
    """deterministic per-design prediction: a function of the design's coordinates only."""

    def __init__(self, rng, d, m, full_cov):
        self.A = rng.normal(size=(d, m))
        self.B = rng.normal(size=(d, m))
        self.full = full_cov
        self.m = m
        self.Q = np.linalg.qr(rng.normal(size=(m, m)))[0]
        self.t = 0.0

    def predict(self, X):
        X = np.asarray(X, float)
        mean = np.sin(X @ self.A * 3 + self.t) + X @ self.B
        ev = 0.05 + np.abs(np.cos(X @ self.B * 2 + self.t))  # (N, m)
        if self.full:
            cov = np.einsum("ij,nj,kj->nik", self.Q, ev, self.Q)
        else:
            cov = np.einsum("nj,jk->njk", ev, np.eye(self.m))
        return mean, cov


def gp_model(rng, kind, d, m, ntrain):
    from vopy.models import CorrelatedExactGPyTorchModel, GPyTorchModelListExactModel, IndependentExactGPyTorchModel

    X = rng.random((ntrain, d))
    Y = rng.normal(size=(ntrain, m))
    nv = float(10 ** rng.uniform(-2, 0))
    if kind == "independent":
        mod = IndependentExactGPyTorchModel(d, m, nv)
        mod.add_sample(X, Y)
    elif kind == "correlated":
        mod = CorrelatedExactGPyTorchModel(d, m, nv)
        mod.add_sample(X, Y)
    else:
        mod = GPyTorchModelListExactModel(d, m, nv)
        for k in range(m):
            mod.add_sample(X, Y[:, k], k)
    mod.update()
    return mod


def random_indices(rng, n, allow_empty=False):
    r = rng.random()
    if allow_empty and r > 0.97:
        return []  # the empty subset: nothing may change
    if r < 0.15:
        return None
    if r < 0.4:
        return [int(rng.integers(n))]
    k = int(rng.integers(1, n + 1))
    idx = [int(i) for i in rng.permutation(n)[:k]]
    if rng.random() < 0.3 and k >= 2:
        idx.append(idx[0])  # repeat
    if rng.random() < 0.2:
        idx = [np.int64(i) for i in idx]  # indices as they come out of np.where / np.argsort: numpy integers in a list
    return idx


def random_scale(rng, nidx, m, ell):
    r = rng.random()
    if ell or r < 0.34:
        return np.array(float(10 ** rng.uniform(-2, 1)))
    if r < 0.67:
        return 10 ** rng.uniform(-2, 1, size=m)
    return 10 ** rng.uniform(-2, 1, size=(nidx, m))


def fixed_space_sequence(mon, rng, kind):
    from vopy.design_space import FixedPointsDesignSpace
    from vopy.models import EmpiricalMeanVarModel

    d = int(rng.integers(1, 4))
    m = int(rng.integers(2, 4))
    n = int(rng.integers(1, 9))
    ell = bool(rng.random() < 0.4) and kind in ("stub", "stub-full", "correlated", "empirical")
    pts = rng.random((n, d))
    if kind == "empirical":
        pts = np.hstack([pts, np.arange(n)[:, None]])
        model = EmpiricalMeanVarModel(d, m, 0.3, n, track_variances=True)
        model.add_sample(list(range(n)), rng.normal(size=(n, m)))
        model.add_sample(list(range(n)), rng.normal(size=(n, m)))
        model.update()
    elif kind.startswith("stub"):
        model = StubModel(rng, d, m, kind == "stub-full")
    else:
        model = gp_model(rng, kind, d, m, int(rng.integers(1, 6)))
    ds = FixedPointsDesignSpace(pts, m, confidence_type="hyperellipsoid" if ell else "hyperrectangle")
    if not ell and rng.random() < 0.35:
        for r in ds.confidence_regions:
            r.intersect_iteratively = True
    label = f"fixed/{kind}/{'ell' if ell else 'rect'}"
    patching.UpdateWatch(ds, mon, label)
    steps = int(rng.integers(3, 30 if kind.startswith("stub") or kind == "empirical" else 8))
    for s in range(steps):
        idx = random_indices(rng, n, allow_empty=kind.startswith("stub"))
        nidx = n if idx is None else len(idx)
        scale = random_scale(rng, nidx, m, ell)
        if idx == []:
            mon.count("empty_subset_updates")
        if kind.startswith("stub"):
            model.t += rng.choice([0.0, 0.05, 1.0])  # predictions drift between rounds
        elif kind == "empirical" and rng.random() < 0.5:
            model.add_sample(list(range(n)), rng.normal(size=(n, m)))
            model.update()
        elif kind in ("independent", "correlated") and rng.random() < 0.5:
            model.add_sample(rng.random((1, d)), rng.normal(size=(1, m)))
            model.update()
        try:
            ds.update(model, scale, idx)
        except patching.RegionInvariantBroken as e:
            mon.violation("update:invariant-lower<=upper", f"{label}: {e}", {"indices": idx, "scale": scale})
        except Exception as e:
            mon.violation(f"update:crash:{type(e).__name__}", f"{label}: {e!r} (indices {idx}, scale shape {np.shape(scale)})", {"indices": idx, "scale": scale})
            continue
        if kind in ("independent", "correlated", "modellist"):
            mon.count("gp_updates")
            if nidx == 1:
                mon.count("single_design_gp_updates")
        mon.event(case_hash(label, idx, scale, s), True, label + ("/single" if nidx == 1 else ""))
    if len(mon.samples) < 3:
        r0 = ds.confidence_regions[0]
        mon.sample({"label": label, "n": n, "last_indices": idx, "last_scale": scale, "region0": patching.snapshot_region(r0)[1:]})


def adaptive_sequence(mon, rng):
    from vopy.design_space import AdaptivelyDiscretizedDesignSpace

    d = int(rng.integers(1, 4))
    m = int(rng.integers(2, 4))
    ds = AdaptivelyDiscretizedDesignSpace(d, m, delta=0.1, max_depth=4)
    model = StubModel(rng, d, m, False)
    patching.UpdateWatch(ds, mon, "adaptive/stub/rect")
    leaves = [0]
    for s in range(int(rng.integers(4, 14))):
        if rng.random() < 0.4 and len(ds.points) < 70:
            cand = [i for i in leaves if ds.point_depths[i] < 4]
            if cand:
                i = int(rng.choice(cand))
                ch = ds.refine_design(i)
                leaves.remove(i)
                leaves.extend(ch)
        n = len(ds.points)
        idx = random_indices(rng, n)
        nidx = n if idx is None else len(idx)
        model.t += 0.1
        try:
            ds.update(model, random_scale(rng, nidx, m, False), idx)
        except Exception as e:
            mon.violation(f"update:crash:{type(e).__name__}", f"adaptive: {e!r}", {"indices": idx})
            continue
        mon.count("adaptive_updates")
        mon.event(case_hash("ad", idx, s, n), True, "adaptive")


def direct_intersect(mon, rng):
    from vopy.confidence_region import RectangularConfidenceRegion

    m = int(rng.integers(2, 5))
    region = RectangularConfidenceRegion(m, intersect_iteratively=True)
    lo, hi = region.lower.copy(), region.upper.copy()
    lattice = rng.random() < 0.4
    for s in range(int(rng.integers(5, 40))):
        if lattice:
            mean = rng.integers(-3, 4, size=m).astype(float)
            std = rng.integers(0, 3, size=m).astype(float)
        else:
            mean = rng.normal(size=m)
            std = 10 ** rng.uniform(-2, 0.5, size=m)
        scale = np.array(1.0) if lattice else np.array(float(10 ** rng.uniform(-1, 0.5)))
        cov = np.diag(std**2)
        L, U = mean - std * scale, mean + std * scale
        try:
            region.update(mean, cov, scale)
        except patching.RegionInvariantBroken as e:
            mon.violation("update:invariant-lower<=upper", str(e), {"mean": mean, "std": std})
            return
        iL, iU = np.maximum(lo, L), np.minimum(hi, U)
        tol = 1e-12 * (1 + np.abs(U).max() + np.abs(L).max())
        overlap = ((lo < U - tol) & (L < hi - tol)).all()
        disjoint = ((lo > U + tol) | (L > hi + tol)).any()
        got = (np.array(region.lower, float), np.array(region.upper, float))
        ok_new = np.abs(got[0] - L).max() <= tol and np.abs(got[1] - U).max() <= tol
        ok_int = np.abs(got[0] - iL).max() <= tol and np.abs(got[1] - iU).max() <= tol
        case = {"old": [lo, hi], "new": [L, U], "got": got}
        mon.count("direct_intersect_events")
        mon.event(case_hash("di", lo, hi, L, U), True, "direct-intersect/" + ("overlap" if overlap else "disjoint" if disjoint else "touching"))
        if (got[0] > got[1]).any():
            mon.violation("update:lower-above-upper", f"{got}", case)
        if overlap and not ok_int:
            mon.violation("update:intersection-wrong", f"old [{lo},{hi}] new [{L},{U}] got {got}", case)
        elif disjoint and not ok_new:
            mon.violation("update:disjoint-not-replaced", f"old [{lo},{hi}] new [{L},{U}] got {got}", case)
        elif not (ok_new or ok_int):
            mon.violation("update:touching-neither", f"old [{lo},{hi}] new [{L},{U}] got {got}", case)
        lo, hi = got
    # non-square covariance rejected
    try:
        region.update(np.zeros(m), np.zeros((m, m + 1)), np.array(1.0))
        mon.violation("update:non-square-accepted", "non-square covariance accepted", {})
    except ValueError:
        pass


def inrun(mon, rng, real=False):
    """the same hook inside real algorithm runs: every modeling() call of every round is checked"""
    from vmon import runs

    variant = str(rng.choice(["VOGP", "PaVeBaGP-IH", "PaVeBaGP-DE", "PartialGP-rect", "EpsilonPAL", "PaVeBa", "Auer-emp"]))
    case, order = runs.make_case(rng, variant, K=int(rng.integers(1, 8)), allow_Kgtm=False, contraction=float(rng.choice([8, 32])))
    if real and runs.VARIANTS[variant]["algo"] in ("VOGP", "EpsilonPAL", "PaVeBaGP", "PaVeBaPartialGP"):
        case, order = runs.make_case(rng, variant, K=int(rng.integers(8, 13)), allow_Kgtm=False, contraction=16.0, scale=1.0,
                                     ds_family="random", noise_var=0.01, eps=0.3, model="real")
    case["max_rounds"] = 25
    tr = runs.run_case(case, order, mon, max_extra_steps=0, watch_updates=True)
    mon.count("inrun_runs")
    mon.event(case_hash("inrun", case["seed"]), True, f"inrun/{variant}")


def huge_space(mon, rng):
    """1100-3000 designs, more than 1024 of them updated in one call with one scale row PER DESIGN (chunked / sliced prediction
    paths only exist above a size threshold — seeded/W03-design-space-update-chunked-scale-rows)"""
    from vopy.design_space import FixedPointsDesignSpace

    d, m = int(rng.integers(1, 4)), int(rng.integers(2, 4))
    n = int(rng.integers(1100, 3000))
    ell = bool(rng.random() < 0.4)
    model = StubModel(rng, d, m, bool(rng.random() < 0.5))
    ds = FixedPointsDesignSpace(rng.random((n, d)), m, confidence_type="hyperellipsoid" if ell else "hyperrectangle")
    label = f"fixed/huge/{'ell' if ell else 'rect'}"
    patching.UpdateWatch(ds, mon, label)
    plans = [None, [int(i) for i in rng.permutation(n)[: int(rng.integers(1030, n))]], None]
    for s, idx in enumerate(plans):
        nidx = n if idx is None else len(idx)
        scale = 10 ** rng.uniform(-2, 1, size=(nidx, m)) if (s < 2 and not ell) else np.array(float(10 ** rng.uniform(-1, 1)))
        model.t += 0.3
        try:
            ds.update(model, scale, idx)
        except Exception as e:
            mon.violation(f"update:crash:{type(e).__name__}", f"{label}: {e!r} ({nidx} indices, scale shape {np.shape(scale)})", {"n": n, "nidx": nidx})
            return
        mon.count("huge_updates")
        mon.event(case_hash(label, n, s), True, label)


def shard(mon, tier, rng, shard_no, nshards):
    has_ic = patching.install_region_invariant()
    mon.notes["icontract"] = has_ic
    if tier == "thorough" or shard_no % 4 == 1:
        huge_space(mon, rng)
    n = max(3, N[tier] // nshards)
    kinds = ["stub", "stub-full", "empirical", "independent", "correlated", "modellist"]
    for it in range(n):
        fixed_space_sequence(mon, rng, "stub")
        fixed_space_sequence(mon, rng, "stub-full")
        fixed_space_sequence(mon, rng, "empirical")
        fixed_space_sequence(mon, rng, kinds[3 + (it + shard_no) % 3])
        adaptive_sequence(mon, rng)
        for _ in range(4):
            direct_intersect(mon, rng)
    for k in range(2 if tier == "quick" else 30):
        inrun(mon, rng, real=(tier == "thorough" and k % 5 == 0))
    mon.count("invariant_evals", patching.INV_EVALS[0])
