"""C20 — problems return the nearest design's value plus configured noise; data scaled.

Reference lookup (exact squared distances, near-ties accepted), moment monitor for the noise law
(every mean / covariance entry within 7 standard errors of L L^T), recording wrapper on the inner
problem for decoupled evaluation, before/after comparison of caller arrays, exhaustive checks of
the bundled datasets, normalise/unnormalise round trips."""
from __future__ import annotations

import numpy as np

from vmon import gen
from vmon.core import case_hash

RULE = (
    "synthetic and bundled datasets; query points on the grid, off the grid, midway between designs, "
    "single 1-D points and batches; noise: diagonal and random SPD (Cholesky factor installed on the public "
    "noise_cholesky attribute and passed to get_noisy_evaluations_chol directly); evaluation_index None/int/"
    "list/array; BraninCurrin inputs containing exact 0 and 1; (un)normalise with negative/wide bounds. "
    "distinct = hash(query, dataset); non-trivial = query not a trivially unique nearest neighbour at distance 0, "
    "or a noise law with off-diagonal covariance."
)
ASSUMPTIONS = ["statistical channel: 2e5 draws per law, 7 standard errors per moment entry (false alarm ~1e-11 per entry)",
               "nearest-neighbour near-ties within 1e-9 relative squared distance accept either design"]
N = {"quick": 96, "thorough": 9600}
REQUIRE = {"quick": {"lookup_events": 1500, "law_events": 24, "law_correlated": 12, "decoupled_events": 600,
                     "immutability_events": 1000, "branin_zero_inputs": 30, "dataset_checks": 4, "dataset_raw_file_checks": 4,
                     "normalize_events": 200, "closest_events": 100, "normalize_out_of_bounds_events": 100, "straddling_query_pairs": 100}}
TIMEOUT = {"quick": 900, "thorough": 3600}
NDRAW = 200_000
NSE = 7.0


def synth_dataset(rng):
    from vopy.datasets.dataset import Dataset

    n = int(rng.integers(2, 40))
    d = int(rng.integers(1, 5))
    m = int(rng.integers(2, 5))
    X = rng.random((n, d))
    if rng.random() < 0.3:  # duplicated input rows -> exact ties
        X[int(rng.integers(n))] = X[int(rng.integers(n))]
    Y = rng.normal(size=(n, m))

    class DS(Dataset):
        _in_dim, _out_dim, _cardinality = d, m, n

        def __init__(self):
            self.in_data = X.copy()
            self.out_data = Y.copy()
            super().__init__()

    return DS()


def check_buffer_reuse(mon, rng, ds, prob):
    """the same query ARRAY OBJECT refilled in place between two calls: the answer must follow the contents"""
    n, d = ds.in_data.shape
    k = int(rng.integers(1, 5))
    i1, i2 = rng.integers(n, size=k), rng.integers(n, size=k)
    buf = ds.in_data[i1].copy()
    f1 = np.asarray(prob.evaluate(buf, noisy=False))
    buf[...] = ds.in_data[i2]
    f2 = np.asarray(prob.evaluate(buf, noisy=False))
    mon.count("buffer_reuse_events")
    mon.event(case_hash("buf", i1, i2), True, "lookup/buffer-reuse")
    D2 = ((ds.in_data[i2][:, None, :] - ds.in_data[None, :, :]) ** 2).sum(-1)
    for r in range(k):
        ok_rows = np.nonzero(D2[r] <= D2[r].min() * (1 + 1e-9) + 1e-18)[0]
        if not any(np.array_equal(f2[r], ds.out_data[j]) for j in ok_rows):
            mon.violation("evaluate:stale-answer-for-refilled-array", f"query buffer refilled in place: row {r} returned {f2[r]}, nearest design {ok_rows[0]} has {ds.out_data[ok_rows[0]]}",
                          {"first": ds.in_data[i1], "second": ds.in_data[i2]})
            return


def check_closest(mon, rng, ds):
    """get_closest_indices_from_points with distances (used by the design spaces to locate points)."""
    from vopy.utils import get_closest_indices_from_points

    n, d = ds.in_data.shape
    q = rng.random((int(rng.integers(1, 6)), d))
    if rng.random() < 0.5:
        q[0] = ds.in_data[int(rng.integers(n))]
    q0 = q.copy()
    D2 = ((q[:, None, :] - ds.in_data[None, :, :]) ** 2).sum(-1)
    for squared in (False, True):
        idx, dist = get_closest_indices_from_points(q, ds.in_data, return_distances=True, squared=squared)
        mon.count("closest_events")
        mon.count("immutability_events")
        want_d = D2.min(1) if squared else np.sqrt(D2.min(1))
        ok_idx = all(D2[r, idx[r]] <= D2[r].min() * (1 + 1e-9) + 1e-18 for r in range(len(q)))
        if not ok_idx or np.abs(np.asarray(dist) - want_d).max() > 1e-7 * (1 + want_d.max()):
            mon.violation("closest:wrong", f"squared={squared}: indices {idx}, distances {dist}; expected distances {want_d}", {"q": q0, "in_data": ds.in_data})
        if not np.array_equal(q, q0):
            mon.violation("closest:input-mutated", "query changed", {})
    if len(get_closest_indices_from_points([], ds.in_data)) != 0:
        mon.violation("closest:empty", "empty query should give an empty result", {})


def check_lookup(mon, rng, ds, prob, dec):
    n, d = ds.in_data.shape
    kinds = ["grid", "off", "mid", "single", "far", "straddle"]
    for _ in range(25):
        kind = str(rng.choice(kinds))
        if kind == "grid":
            idx = rng.integers(n, size=int(rng.integers(1, 6)))
            x = ds.in_data[idx].copy()
        elif kind == "off":
            idx = rng.integers(n, size=int(rng.integers(1, 6)))
            x = ds.in_data[idx] + rng.normal(size=(len(idx), d)) * 10 ** rng.uniform(-9, -1)
        elif kind == "mid":
            i, j = rng.integers(n, size=2)
            t = 0.5 + rng.choice([0.0, 1e-3, -1e-3, 1e-12])
            x = (ds.in_data[i] * t + ds.in_data[j] * (1 - t)).reshape(1, -1)
        elif kind == "straddle":
            # two queries a few 1e-9 apart on opposite sides of the bisector of two designs, in one batch: they agree to 8
            # decimals but have different nearest designs (seeded/W06: nearest index memoised by the rounded query)
            i, j = rng.integers(n, size=2)
            L = float(np.linalg.norm(ds.in_data[i] - ds.in_data[j]))
            if L < 1e-3:
                continue
            u = (ds.in_data[j] - ds.in_data[i]) / L
            mid = (ds.in_data[i] + ds.in_data[j]) / 2
            t = float(rng.choice([3e-9, 1e-9, 4e-10]))
            x = np.vstack([mid - t * u, mid + t * u, mid - 2 * t * u, mid + 2 * t * u][: int(rng.choice([2, 4]))])
            if rng.random() < 0.5:
                x = x[::-1].copy()
            mon.count("straddling_query_pairs")
        elif kind == "single":
            x = ds.in_data[int(rng.integers(n))] + rng.normal(size=d) * 1e-3  # 1-D point
        else:
            x = rng.normal(size=(2, d)) * 5
        if rng.random() < 0.04:
            kind = "big-batch"
            idx = rng.integers(n, size=int(rng.integers(520, 1700)))
            x = ds.in_data[idx] + rng.normal(size=(len(idx), d)) * 1e-4
            mon.count("big_batch_lookups")
        x0 = x.copy()
        x2 = np.atleast_2d(x0)
        # exact-ish squared distances in float64 via direct differences (no dot-product trick)
        D2 = ((x2[:, None, :] - ds.in_data[None, :, :]) ** 2).sum(-1)
        if rng.random() < 0.25:
            x = gen.exotic(x, rng)  # Fortran-ordered / non-contiguous / read-only query arrays
            mon.count("exotic_layout_queries")
        try:
            f = prob.evaluate(x, noisy=False)
        except Exception as e:
            mon.violation(f"evaluate:crash:{type(e).__name__}", f"{kind}: {e!r}", {"x": x0})
            continue
        mon.count("lookup_events")
        mon.count("immutability_events")
        nontriv = kind != "grid"
        mon.event(case_hash("q", x0, ds.in_data[:2]), nontriv, f"lookup/{kind}")
        if not np.array_equal(x, x0):
            mon.violation("evaluate:input-mutated", f"{kind}: query array changed by evaluate", {"x": x0})
        f = np.asarray(f)
        if f.shape != (len(x2), ds.out_dim):
            mon.violation("evaluate:shape", f"{kind}: shape {f.shape}", {"x": x0})
            continue
        for r in range(len(x2)):
            dmin = D2[r].min()
            ok_rows = np.nonzero(D2[r] <= dmin * (1 + 1e-9) + 1e-18)[0]
            if not any(np.array_equal(f[r], ds.out_data[k]) for k in ok_rows):
                mon.violation("evaluate:not-nearest-row",
                              f"{kind}: returned {f[r]}, nearest design(s) {ok_rows.tolist()} have {ds.out_data[ok_rows[0]]}",
                              {"x": x2[r], "in_data": ds.in_data, "out_data": ds.out_data})
        # decoupled forms against the logged inner evaluation
        forms = ["none", "int", "list", "array", "tuple"]
        form = str(rng.choice(forms))
        k = len(x2)
        if form == "none":
            ei = None
        elif form == "int":
            ei = int(rng.integers(ds.out_dim))
        elif form == "list":
            ei = [int(v) for v in rng.integers(ds.out_dim, size=k)]
        elif form == "tuple":
            ei = tuple(int(v) for v in rng.integers(ds.out_dim, size=k))
        else:
            ei = rng.integers(ds.out_dim, size=k)
        INNER.clear()
        xq = x2.copy()
        try:
            out = dec.evaluate(xq, ei, noisy=bool(rng.random() < 0.5))
        except Exception as e:
            mon.violation(f"decoupled:crash:{type(e).__name__}", f"form {form}: {e!r}", {"x": x2, "evaluation_index": ei})
            continue
        mon.count("decoupled_events")
        mon.count("immutability_events")
        if not np.array_equal(xq, x2):
            mon.violation("decoupled:input-mutated", "query array changed", {"x": x2})
        if len(INNER) != 1:
            mon.violation("decoupled:inner-calls", f"{len(INNER)} inner evaluations for one request", {"form": form})
            continue
        inner = INNER[0]
        if form == "none":
            exp = inner
        elif form == "int":
            exp = inner[:, ei]
        else:
            exp = inner[np.arange(k), np.asarray(ei)]
        if not np.array_equal(np.asarray(out), exp):
            mon.violation("decoupled:wrong-component", f"form {form} idx {ei}: got {out}, inner evaluation {inner}", {"form": form, "ei": ei})


INNER = []


def wrap_inner(prob):
    orig = prob.evaluate

    def ev(x, **kw):
        y = orig(x, **kw)
        INNER.append(np.array(y, copy=True))
        return y

    prob.evaluate = ev


def check_law(mon, rng, make, label, correlated):
    """make() -> (problem, x, true_mean) ; installs a covariance and checks the sample moments."""
    prob, x, mean, m = make()
    if correlated:
        A = rng.normal(size=(m, m))
        Sigma = A @ A.T + np.eye(m) * 0.05
        Sigma *= 10 ** rng.uniform(-2, 1)
        prob.noise_cholesky = np.linalg.cholesky(Sigma)
        mon.count("law_correlated")
    L = np.asarray(prob.noise_cholesky)
    Sigma = L @ L.T
    seed = int(rng.integers(2**31))
    np.random.seed(seed)
    X = np.repeat(np.atleast_2d(x), NDRAW, axis=0)
    Y = np.asarray(prob.evaluate(X))
    mon.count("law_events")
    mon.event(case_hash("law", Sigma, label), correlated, f"law/{label}/{'corr' if correlated else 'diag'}")
    case = {"label": label, "Sigma": Sigma, "np_seed": seed}
    if Y.shape != (NDRAW, m):
        mon.violation("noise:shape", f"{Y.shape}", case)
        return
    R = Y - mean
    mu = R.mean(0)
    se_mu = np.sqrt(np.diag(Sigma) / NDRAW)
    zmu = np.abs(mu) / se_mu
    C = (R - mu).T @ (R - mu) / NDRAW
    se_C = np.sqrt((np.outer(np.diag(Sigma), np.diag(Sigma)) + Sigma**2) / NDRAW)
    zC = np.abs(C - Sigma) / se_C
    mon.stat_max("max_z_mean", zmu.max())
    mon.stat_max("max_z_cov", zC.max())
    if zmu.max() > NSE:
        mon.violation("noise:mean", f"{label}: sample mean off by {zmu.max():.1f} s.e.", case)
    if zC.max() > NSE:
        mon.violation("noise:covariance", f"{label}: sample covariance {C.tolist()} vs configured {Sigma.tolist()} "
                      f"({zC.max():.1f} s.e.)", case)
    # Gaussianity: 4th standardised moment of each whitened coordinate ~ 3 (s.e. sqrt(96/n))
    Z = np.linalg.solve(L, R.T).T
    k4 = (Z**4).mean(0)
    if np.abs(k4 - 3).max() > NSE * np.sqrt(96 / NDRAW):
        mon.violation("noise:not-gaussian", f"{label}: whitened kurtosis {k4}", case)


def check_law_single_points(mon, rng, make, label):
    """the same law through many single-point (1-D) calls: the 1-D reshape path must add the same noise"""
    prob, x, mean, m = make()
    L = np.asarray(prob.noise_cholesky)
    Sigma = L @ L.T
    n = 4000
    np.random.seed(int(rng.integers(2**31)))
    x1 = np.asarray(x, float).reshape(-1)
    from vopy.utils import generate_sobol_samples

    interleave = bool(rng.random() < 0.5)  # an unrelated library call between two evaluations must not disturb the noise law
    Y = []
    for _ in range(n):
        Y.append(np.asarray(prob.evaluate(x1.copy())).reshape(-1))
        if interleave:
            generate_sobol_samples(2, 2)
    Y = np.array(Y)
    if interleave:
        mon.count("law_interleaved_with_other_calls")
        if len(np.unique(np.round(Y[:, 0], 12))) < 0.99 * n:
            mon.violation("noise:repeating-draws", f"{label}: only {len(np.unique(np.round(Y[:, 0], 12)))} distinct noise values in {n} evaluations "
                          "interleaved with generate_sobol_samples calls", {"label": label})
            return
    mon.count("law_single_point_events")
    mon.event(case_hash("law1", Sigma, label), True, f"law/{label}/single-point")
    if Y.shape != (n, m):
        mon.violation("noise:shape", f"{label}: single-point evaluations have shape {Y.shape[1:]}", {"label": label})
        return
    R = Y - mean
    zmu = np.abs(R.mean(0)) / np.sqrt(np.diag(Sigma) / n)
    C = R.T @ R / n
    zC = np.abs(C - Sigma) / np.sqrt((np.outer(np.diag(Sigma), np.diag(Sigma)) + Sigma**2) / n)
    if zmu.max() > NSE or zC.max() > NSE:
        mon.violation("noise:single-point-law", f"{label}: 1-D queries: mean off {zmu.max():.1f} s.e., covariance off {zC.max():.1f} s.e.", {"label": label})


def check_chol_direct(mon, rng):
    from vopy.utils import get_noisy_evaluations_chol

    m = int(rng.integers(2, 5))
    A = rng.normal(size=(m, m))
    Sigma = A @ A.T + np.eye(m) * 0.05
    L = np.linalg.cholesky(Sigma)
    mean = rng.normal(size=(1, m))
    means = np.repeat(mean, NDRAW, axis=0)
    m0 = means.copy()
    seed = int(rng.integers(2**31))
    np.random.seed(seed)
    Y = get_noisy_evaluations_chol(means, L)
    mon.count("law_events")
    mon.count("law_correlated")
    mon.count("immutability_events")
    mon.event(case_hash("chol", Sigma), True, "law/chol-direct")
    if not np.array_equal(means, m0):
        mon.violation("noise:means-mutated", "get_noisy_evaluations_chol changed its input", {})
    R = Y - mean
    C = R.T @ R / NDRAW
    se_C = np.sqrt((np.outer(np.diag(Sigma), np.diag(Sigma)) + Sigma**2) / NDRAW)
    z = np.abs(C - Sigma) / se_C
    mon.stat_max("max_z_cov", z.max())
    if z.max() > NSE:
        mon.violation("noise:covariance", f"get_noisy_evaluations_chol: sample covariance {C.tolist()} vs L L^T {Sigma.tolist()} ({z.max():.1f} s.e.)",
                      {"Sigma": Sigma, "np_seed": seed})


def check_branin(mon, rng):
    from vopy.maximization_problem import BraninCurrin, ContinuousProblem, get_continuous_problem

    prob = get_continuous_problem("BraninCurrin", float(10 ** rng.uniform(-3, 0)))
    for _ in range(12):
        n = int(rng.integers(1, 6))
        x = rng.random((n, 2))
        kind = str(rng.choice(["zero", "one", "generic", "view"]))
        if kind == "zero":
            x[int(rng.integers(n)), int(rng.integers(2))] = 0.0
            x[int(rng.integers(n)), 1] = 0.0
            mon.count("branin_zero_inputs")
        elif kind == "one":
            x[int(rng.integers(n)), int(rng.integers(2))] = 1.0
        x0 = x.copy()
        try:
            f = prob.evaluate(x, noisy=False)
            f2 = prob.evaluate_true(x0.copy())
        except Exception as e:
            mon.violation(f"branin:crash:{type(e).__name__}", repr(e), {"x": x0})
            continue
        mon.count("immutability_events")
        mon.event(case_hash("b", x0), kind != "generic", f"branin/{kind}")
        if not np.array_equal(x, x0):
            mon.violation("evaluate:input-mutated", f"BraninCurrin.evaluate changed the caller's array: {x0.tolist()} -> {x.tolist()}", {"x": x0})
        if f.shape != (n, 2) or not np.all(np.isfinite(f)):
            mon.violation("branin:not-finite", f"{f}", {"x": x0})
        if not np.array_equal(f, f2):
            mon.violation("branin:noiseless-differs", "evaluate(noisy=False) != evaluate_true", {"x": x0})
        # 1-D single point
        x1 = x0[0].copy()
        g = prob.evaluate(x1, noisy=False)
        if not np.array_equal(x1, x0[0]) or not np.allclose(g[0], f2[0], rtol=1e-12, atol=1e-12):
            mon.violation("branin:single-point", "1-D query differs / mutated", {"x": x0[0]})


def check_datasets(mon):
    from vopy.datasets import get_dataset_instance

    decl = {"Test": (32, 4, 2), "SNW": (206, 3, 2), "DiskBrake": (128, 4, 2), "VehicleSafety": (500, 5, 3)}
    for name, (n, d, m) in decl.items():
        ds = get_dataset_instance(name)
        mon.count("dataset_checks")
        mon.event(case_hash("ds", name), True, f"dataset/{name}")
        case = {"dataset": name}
        if ds.in_data.shape != (n, d) or ds.out_data.shape != (n, m) or ds.in_dim != d or ds.out_dim != m \
                or (ds._cardinality, ds._in_dim, ds._out_dim) != (n, d, m):
            mon.violation("dataset:sizes", f"{name}: {ds.in_data.shape} {ds.out_data.shape}", case)
        if ds.in_data.min() < -1e-12 or ds.in_data.max() > 1 + 1e-12:
            mon.violation("dataset:inputs-out-of-unit-cube", f"{name}: range [{ds.in_data.min()},{ds.in_data.max()}]", case)
        rngc = ds.in_data.max(0) - ds.in_data.min(0)
        if (np.abs(ds.in_data.min(0)) > 1e-12).any() or (np.abs(rngc[rngc > 0] - 1) > 1e-12).any():
            mon.violation("dataset:inputs-not-minmax", f"{name}: per-column min {ds.in_data.min(0)} max {ds.in_data.max(0)}", case)
        if np.abs(ds.out_data.mean(0)).max() > 1e-9 or np.abs(ds.out_data.std(0) - 1).max() > 1e-9:
            mon.violation("dataset:not-standardised", f"{name}: mean {ds.out_data.mean(0)} std {ds.out_data.std(0)}", case)
        if not np.all(np.isfinite(ds.in_data)) or not np.all(np.isfinite(ds.out_data)):
            mon.violation("dataset:not-finite", name, case)
        # "scaled" / "standardised" versions OF THE BUNDLED FILE: inputs are the min-max image of the raw input columns,
        # objectives the standardised raw objective columns (up to the sign convention of a maximisation problem)
        try:
            from importlib.resources import files

            fname = {"Test": "test.npy", "SNW": "sort_256.csv", "DiskBrake": "brake.npy", "VehicleSafety": "VehicleSafety.npy"}[name]
            path = files("vopy.datasets.data").joinpath(fname)
            raw = np.genfromtxt(path, delimiter=";") if fname.endswith(".csv") else np.load(path, allow_pickle=True)
            raw = np.asarray(raw, float)
            rin, rout = raw[:, :d], raw[:, d:d + m]
            span = rin.max(0) - rin.min(0)
            want_in = (rin - rin.min(0)) / np.where(span > 0, span, 1.0)
            if raw.shape[0] != n or np.abs(want_in - ds.in_data).max() > 1e-9:
                mon.violation("dataset:inputs-not-scaled-raw", f"{name}: in_data is not the min-max image of the raw input columns "
                              f"(max deviation {np.abs(want_in - ds.in_data).max():.3g})", case)
            want_out = (rout - rout.mean(0)) / rout.std(0)
            dev = np.minimum(np.abs(want_out - ds.out_data).max(0), np.abs(want_out + ds.out_data).max(0))
            if dev.max() > 1e-9:
                mon.violation("dataset:objectives-not-standardised-raw", f"{name}: out_data is not the standardised raw objective columns "
                              f"(per-column deviation {dev})", case)
            mon.count("dataset_raw_file_checks")
        except FileNotFoundError:
            mon.count("dataset_raw_file_missing")


def check_normalize(mon, rng):
    from vopy.utils import normalize, unnormalize

    for _ in range(15):
        n, d = int(rng.integers(1, 8)), int(rng.integers(1, 5))
        lo = rng.normal(size=d) * 10 ** rng.uniform(-2, 3, size=d)
        width = 10 ** rng.uniform(-3, 4, size=d)
        bounds = [(float(a), float(a + w)) for a, w in zip(lo, width)]
        inside = bool(rng.random() < 0.5)
        # half of the cases leave the bounds: the maps are affine, hence mutual inverses everywhere
        x = lo + (rng.random((n, d)) if inside else rng.uniform(-1.0, 2.0, size=(n, d))) * width
        x0 = x.copy()
        u = normalize(x, bounds)
        back = unnormalize(u, bounds)
        u2 = rng.random((n, d)) if inside else rng.uniform(-1.0, 2.0, size=(n, d))
        if not inside:
            mon.count("normalize_out_of_bounds_events")
        u20 = u2.copy()
        fwd = normalize(unnormalize(u2, bounds), bounds)
        mon.count("normalize_events")
        mon.count("immutability_events")
        mon.event(case_hash("n", x0, lo), True, "normalize")
        scale = np.abs(lo) + width
        if not np.array_equal(x, x0) or not np.array_equal(u2, u20):
            mon.violation("normalize:input-mutated", "input changed", {"bounds": bounds})
        if inside and ((u < -1e-12).any() or (u > 1 + 1e-12).any()):
            mon.violation("normalize:out-of-unit", f"{u}", {"bounds": bounds, "x": x0})
        if (np.abs(back - x0) > 1e-12 * scale * 8).any():
            mon.violation("normalize:roundtrip", f"unnormalize(normalize(x)) off by {np.abs(back - x0).max()}", {"bounds": bounds, "x": x0})
        if (np.abs(fwd - u20) > 1e-12 * (1 + np.abs(lo) / width) * 8).any():
            mon.violation("normalize:roundtrip", f"normalize(unnormalize(u)) off by {np.abs(fwd - u20).max()}", {"bounds": bounds, "u": u20})
        # wrong-length bounds rejected
        try:
            normalize(x, bounds[:-1] if d > 1 else bounds + bounds)
            mon.violation("normalize:bad-bounds-accepted", "bounds of wrong length accepted", {})
        except ValueError:
            pass


def shard(mon, tier, rng, shard_no, nshards):
    from vopy.maximization_problem import BraninCurrin, DecoupledEvaluationProblem, ProblemFromDataset
    from vopy.datasets import get_dataset_instance

    if shard_no == 0:
        check_datasets(mon)
    n = max(2, N[tier] // nshards)
    for it in range(n):
        if it % 4 == 3:
            ds = get_dataset_instance(str(rng.choice(["Test", "DiskBrake"])))
        else:
            ds = synth_dataset(rng)
        nv = float(10 ** rng.uniform(-3, 1))
        prob = ProblemFromDataset(ds, nv)
        if prob.noise_cholesky.shape != (ds.out_dim, ds.out_dim) or not np.allclose(prob.noise_cholesky @ prob.noise_cholesky.T, np.eye(ds.out_dim) * nv):
            mon.violation("noise:configured-factor", "noise_cholesky is not chol(noise_var*I)", {"noise_var": nv})
        inner = ProblemFromDataset(ds, nv)
        wrap_inner(inner)
        dec = DecoupledEvaluationProblem(inner)
        check_lookup(mon, rng, ds, prob, dec)
        check_closest(mon, rng, ds)
        check_buffer_reuse(mon, rng, ds, prob)
        check_normalize(mon, rng)
        check_branin(mon, rng)
        if len(mon.samples) < 2:
            mon.sample({"dataset_shape": ds.in_data.shape, "noise_var": nv, "first_design": ds.in_data[0], "first_value": ds.out_data[0]})
    # statistical laws
    nlaws = 2 if tier == "quick" else 12
    for j in range(nlaws):
        ds = synth_dataset(rng)
        # a design whose input row is unique (duplicated rows tie; the lookup channel covers those)
        uniq = [k for k in range(len(ds.in_data)) if (np.abs(ds.in_data - ds.in_data[k]).max(1) == 0).sum() == 1]
        i = int(rng.choice(uniq)) if uniq else 0

        def make_ds(ds=ds, i=i):
            p = ProblemFromDataset(ds, float(10 ** rng.uniform(-3, 1)))
            return p, ds.in_data[i], ds.out_data[i], ds.out_dim

        check_law(mon, rng, make_ds, "dataset", correlated=(j % 2 == 0))

        def make_bc():
            p = BraninCurrin(float(10 ** rng.uniform(-3, 0)))
            x = rng.random(2)
            return p, x, p.evaluate_true(x.reshape(1, -1))[0], 2

        if j % 2 == 1:
            check_law(mon, rng, make_bc, "BraninCurrin", correlated=bool(rng.random() < 0.5))
            check_law_single_points(mon, rng, make_bc, "BraninCurrin")
        else:
            check_law_single_points(mon, rng, make_ds, "dataset")
        check_chol_direct(mon, rng)
