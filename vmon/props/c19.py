"""C19 — gaps, epsilon-coverage and epsilon-F1 agree with their geometric definitions.

Reference: m(i,j) = min_n [w_n.(v_j-v_i)]^+ / alpha_n with alpha from the NNLS oracle (never from
cone.alpha); epsilon-cover distance by least-distance programming with primal/dual sandwich; F1
recomputed from those; algebraic laws (range, =1 on the true set, permutation invariance,
monotone in epsilon); hypervolumes observed through a wrapper on Hypervolume.compute."""
from __future__ import annotations

from types import SimpleNamespace

import numpy as np

from vmon import gen
from vmon.core import TAU_SOCP_ABS, TAU_SOCP_REL, case_hash
from vmon.oracles import geometry as G

RULE = (
    "value sets of 2..40 points in 2..4 objectives under all cone families (emphasis on cones with unequal "
    "alpha_n: 3-facet 3-D cones with one acute/one obtuse pair, K>m cones), epsilon grid 0..3*scale, "
    "predicted index sets: true set, permutations, supersets, subsets, random, all; directed D1 witness. "
    "One event per oracle comparison. distinct = hash(W, values, eps, pred); non-trivial = decisive "
    "(no gap / cover distance inside the band of epsilon) and at least one dominated point."
)
ASSUMPTIONS = ["alpha, cover distances from scipy NNLS with certificates",
               "band for cvxpy-decided epsilon-cover: 2e-6 + 1e-4*mag around epsilon",
               "generate_sobol_samples is replaced by a 96-point version inside vopy.utils.evaluate for the "
               "hypervolume channel only (workload size; function under test unchanged)"]
N = {"quick": 260, "thorough": 8000}
REQUIRE = {"quick": {"smallmij_events": 3000, "delta_events": 200, "cover_decisive_true": 200,
                     "cover_decisive_false": 200, "f1_events": 300, "f1_monotone_pairs": 300,
                     "unequal_alpha_cones": 60, "hv_events": 24, "uncovered_events": 100, "integer_dtype_value_sets": 20, "non_unit_row_cones": 20, "huge_magnitude_value_sets": 15}}
TIMEOUT = {"quick": 900, "thorough": 5400}

D1_W = [[1, 0, 0], [0, 1, 0], [0, -0.6, 0.8]]


def value_set(rng, m, W, n, scale):
    X = rng.normal(size=(n, m)) * scale
    u = gen.interior_dir(W)
    for _ in range(int(rng.integers(0, 4))):  # chains: guaranteed positive gaps
        i = int(rng.integers(n))
        j = int(rng.integers(n))
        if i != j:
            X[j] = X[i] + u * scale * rng.uniform(0.05, 1.0) + rng.normal(size=m) * scale * 0.02
    if rng.random() < 0.3:
        X[int(rng.integers(n))] = X[int(rng.integers(n))]
    return X


def check_gaps(mon, rng, label, order, X):
    from vopy.utils import get_delta, get_smallmij

    W = order.ordering_cone.W
    alpha_real = order.ordering_cone.alpha  # (K,1) as the callers pass it
    a_or, lo, hi = G.cone_alpha(W)
    if a_or.max() - a_or.min() > 1e-3:
        mon.count("unequal_alpha_cones")
    n = len(X)
    mag = float(np.abs(X).max())
    pairs = [(int(i), int(j)) for i, j in rng.integers(n, size=(min(30, n * n), 2))]
    for i, j in pairs:
        want = G.small_m(W, a_or, X[i], X[j])
        try:
            # callers pass alpha as (K,1) (OrderingCone.alpha) or flattened (the algorithms' cone_alpha): both must work
            a_in = alpha_real if rng.random() < 0.6 else np.asarray(alpha_real).reshape(-1)
            got = float(get_smallmij(X[i].copy(), X[j].copy(), W, a_in))
        except Exception as e:
            mon.violation(f"smallmij:crash:{type(e).__name__}", repr(e), {"W": W, "vi": X[i], "vj": X[j]})
            continue
        mon.event(case_hash("m", W, X[i], X[j]), want > 0, f"smallmij/{label}")
        mon.count("smallmij_events")
        # alpha passed is the code's own (solver accuracy 1e-8) -> relative tolerance 1e-6
        if abs(got - want) > 1e-6 * (want + 1e-9 * mag) + 1e-12 * mag:
            mon.violation("smallmij:wrong", f"{label}: m(i,j)={got!r}, definition gives {want!r} (alpha={a_or})",
                          {"W": W, "vi": X[i], "vj": X[j], "alpha_oracle": a_or})
    want = G.gaps(W, a_or, X)
    try:
        got = np.asarray(get_delta(gen.exotic(X, rng) if rng.random() < 0.25 else X.copy(), W, alpha_real), float)
    except Exception as e:
        mon.violation(f"delta:crash:{type(e).__name__}", repr(e), {"W": W, "X": X})
        return want
    mon.event(case_hash("d", W, X), bool((want > 0).any()), f"delta/{label}")
    mon.count("delta_events")
    if got.shape != (n, 1):
        mon.violation("delta:shape", f"shape {got.shape}", {"W": W, "X": X})
        return want
    got = got.reshape(-1)
    bad = np.abs(got - want) > 1e-6 * (want + 1e-9 * mag) + 1e-12 * mag
    if bad.any():
        k = int(np.argmax(bad))
        mon.violation("delta:wrong", f"{label}: gap[{k}]={got[k]!r}, definition gives {want[k]!r}", {"W": W, "X": X, "alpha_oracle": a_or})
    # zero exactly for designs not dominated in the interior
    D = (X[:, None, :] - X[None, :, :]) @ W.T  # D[j,i,:] = W(x_j - x_i)
    interior_dominated = (D > 1e-9 * mag).all(-1).any(axis=0)
    notdom = ~((D > -1e-9 * mag).all(-1) & ~np.eye(n, dtype=bool)).any(axis=0)
    if (got[notdom] != 0).any():
        mon.violation("delta:nonzero-for-optimal", f"{label}: non-dominated design has gap {got[notdom].max()}", {"W": W, "X": X})
    if (got[interior_dominated] <= 0).any():
        mon.violation("delta:zero-for-dominated", f"{label}", {"W": W, "X": X})
    return want


def check_cover(mon, rng, label, order, X, scale):
    from vopy.utils import is_covered

    W = order.ordering_cone.W
    n = len(X)
    for _ in range(6):
        i, j = rng.integers(n, size=2)
        dist, lb, feas = G.eps_cover_distance(W, X[i], X[j])
        if not np.isfinite(dist) or dist - lb > 1e-8 * (1 + dist):
            mon.count("oracle_wide")
            continue
        mag = float(max(np.abs(X[i] - X[j]).max(), dist))
        tau = TAU_SOCP_ABS * max(scale, 1.0) + TAU_SOCP_REL * mag  # solver tolerances are absolute: the band does not shrink with tiny data
        for f in (0.5, 0.9, 1.1, 2.0):
            eps = dist * f if dist > 0 else scale * f * 0.1
            if abs(eps - dist) <= tau:
                mon.count("inside_band")
                continue
            expected = dist <= eps
            try:
                got = bool(is_covered(X[i].copy(), X[j].copy(), eps, W))
            except Exception as e:
                mon.violation(f"cover:crash:{type(e).__name__}", repr(e), {"W": W, "vi": X[i], "vj": X[j], "eps": eps})
                continue
            mon.event(case_hash("c", W, X[i], X[j], eps), True, f"cover/{label}")
            mon.count("cover_decisive_true" if expected else "cover_decisive_false")
            if got != expected:
                mon.violation("cover:wrong-" + ("false" if expected else "true"),
                              f"{label}: is_covered={got}, least cone-vector norm {dist!r} vs eps {eps!r}",
                              {"W": W, "vi": X[i], "vj": X[j], "eps": eps, "dist": dist})


def check_uncovered(mon, rng, label, order, X, scale):
    """get_uncovered_set / get_uncovered_size vs the cover-distance oracle (decisive pairs only)."""
    from vopy.utils import get_uncovered_set, get_uncovered_size

    W = order.ordering_cone.W
    n = len(X)
    p_inds = [int(i) for i in rng.choice(n, size=min(n, 4), replace=False)]
    hat = [int(i) for i in rng.choice(n, size=min(n, 3), replace=False)]
    eps = float(scale * 10 ** rng.uniform(-1.5, 0.3))
    mag = float(np.abs(X).max())
    tau = TAU_SOCP_ABS * max(scale, 1.0) + TAU_SOCP_REL * mag  # solver tolerances are absolute: the band does not shrink with tiny data
    want, decisive = [], True
    for i in p_inds:
        cov = False
        for j in hat:
            dist, lb, feas = G.eps_cover_distance(W, X[i], X[j])
            if abs(dist - eps) <= tau or dist - lb > 1e-8 * (1 + dist):
                decisive = False
            cov = cov or dist <= eps
        if not cov:
            want.append(i)
    if not decisive:
        mon.count("inside_band")
        return
    try:
        got = list(get_uncovered_set(p_inds, hat, X.copy(), eps, W))
        got_n = int(get_uncovered_size(X[p_inds].copy(), X[hat].copy(), eps, W))
    except Exception as e:
        mon.violation(f"uncovered:crash:{type(e).__name__}", repr(e), {"W": W, "X": X, "eps": eps})
        return
    mon.count("uncovered_events")
    mon.event(case_hash("un", W, X, eps, p_inds, hat), True, f"uncovered/{label}")
    if got != want or got_n != len(want):
        mon.violation("uncovered:wrong", f"{label}: get_uncovered_set={got}, size={got_n}; oracle {want} (eps={eps:.4g})",
                      {"W": W, "X": X, "eps": eps, "p": p_inds, "hat": hat})


def f1_oracle(W, a_or, X, true_idx, pred_idx, eps, tau):
    """returns (f1, decisive)"""
    gaps = G.gaps(W, a_or, X)
    pred = list(pred_idx)
    decisive = True
    tp = 0
    for p in pred:
        if abs(gaps[p] - eps) <= tau:
            decisive = False
        tp += gaps[p] <= eps
    fp = len(pred) - tp
    missed = sorted(set(true_idx) - set(pred))
    fn = 0
    for i in missed:
        cov = False
        for j in pred:
            dist, lb, feas = G.eps_cover_distance(W, X[i], X[j])
            if abs(dist - eps) <= tau:
                decisive = False
            if dist <= eps:
                cov = True
                break
        fn += not cov
    den = 2 * tp + fp + fn
    return (2 * tp / den if den else float("nan")), decisive


def check_f1(mon, rng, label, order, X, scale):
    from vopy.utils.evaluate import calculate_epsilonF1_score

    W = order.ordering_cone.W
    a_or, _, _ = G.cone_alpha(W)
    n = len(X)
    ds = SimpleNamespace(out_data=X)
    D = (X[:, None, :] - X[None, :, :]) @ W.T
    weak = (D >= 0).all(-1)
    same = (X[:, None, :] == X[None, :, :]).all(-1)
    strict = weak & ~same
    nd = np.nonzero(~strict.any(axis=0))[0]
    # true Pareto set: one representative per distinct value (as the fast routine reports)
    seen, true_idx = set(), []
    for i in nd:
        t = tuple(X[i].tolist())
        if t not in seen:
            seen.add(t)
            true_idx.append(int(i))
    true_idx = np.array(true_idx)
    mag = float(np.abs(X).max())
    tau = TAU_SOCP_ABS * max(scale, 1.0) + TAU_SOCP_REL * mag  # solver tolerances are absolute: the band does not shrink with tiny data
    kinds = ["true", "perm", "superset", "subset", "random", "all"]
    eps_grid = [0.0] + sorted(float(e) for e in scale * 10 ** rng.uniform(-2, 0.5, size=4))
    for kind in kinds:
        if kind == "true":
            pred = true_idx.copy()
        elif kind == "perm":
            pred = rng.permutation(true_idx)
        elif kind == "superset":
            extra = rng.choice(n, size=min(n, 3), replace=False)
            pred = np.array(sorted(set(true_idx.tolist()) | set(extra.tolist())))
        elif kind == "subset":
            if len(true_idx) < 2:
                continue
            pred = true_idx[: max(1, len(true_idx) // 2)]
        elif kind == "random":
            pred = rng.choice(n, size=int(rng.integers(1, n + 1)), replace=False)
        else:
            pred = np.arange(n)
        prev = None
        for eps in eps_grid:
            want, decisive = f1_oracle(W, a_or, X, true_idx.tolist(), pred.tolist(), eps, tau)
            try:
                got = float(calculate_epsilonF1_score(ds, order, true_idx, pred, eps))
            except Exception as e:
                if not decisive:
                    # epsilon sits within the numerical band of a cover distance / gap: the SOCP is degenerate there
                    mon.count("f1_solver_failure_inside_band")
                    prev = None
                    continue
                mon.violation(f"f1:crash:{type(e).__name__}", f"{kind} eps={eps}: {e!r}", {"W": W, "X": X, "pred": pred, "eps": eps})
                continue
            mon.count("f1_events")
            mon.event(case_hash("f", W, X, pred, eps), decisive and strict.any(), f"f1/{label}/{kind}")
            case = {"W": W, "X": X, "true": true_idx, "pred": pred, "eps": eps, "kind": kind}
            if not (0.0 <= got <= 1.0):
                mon.violation("f1:out-of-range", f"F1={got}", case)
            if kind in ("true", "perm") and got != 1.0:
                mon.violation("f1:not-one-on-true-set", f"F1={got} for prediction == true Pareto set ({kind})", case)
            if decisive and eps > 0 and abs(got - want) > 1e-9:
                mon.violation("f1:differs-from-definition", f"{label}/{kind} eps={eps}: F1={got}, recomputed {want}", case)
            if kind == "random":
                got2 = float(calculate_epsilonF1_score(ds, order, true_idx, rng.permutation(pred), eps))
                if got2 != got:
                    mon.violation("f1:order-dependent", f"{got} vs {got2} after permuting predicted indices", case)
            if prev is not None:
                mon.count("f1_monotone_pairs")
                if got < prev[1] - 1e-12 and decisive and prev[2]:
                    mon.violation("f1:not-monotone", f"{label}/{kind}: F1({prev[0]})={prev[1]} > F1({eps})={got}", case)
            prev = (eps, got, decisive)


_HV = []


def install_hv_hook():
    from botorch.utils.multi_objective.hypervolume import Hypervolume
    import vopy.utils.evaluate as ev

    if getattr(Hypervolume.compute, "_vmon", False):
        return
    orig = Hypervolume.compute

    def compute(self, Y):
        v = orig(self, Y)
        _HV.append(float(v))
        return v

    compute._vmon = True
    Hypervolume.compute = compute

    def small_sobol(dim, n):
        return np.random.default_rng(np.random.randint(0, 10**6)).random((96, dim))

    ev.generate_sobol_samples = small_sobol


def check_hv(mon, rng):
    from vopy.utils.evaluate import calculate_hypervolume_discrepancy_for_model

    install_hv_hook()
    m = int(rng.choice([2, 2, 3]))
    # K <= 3 facets: the hypervolume lives in facet space and botorch's recursion is exponential in K
    label, order = gen.random_order(rng, m, families=["theta", "cone3d", "random", "orthant"])
    d = int(rng.integers(1, 4))
    A = rng.normal(size=(d, m))
    noise = float(10 ** rng.uniform(-1.5, 0.3))

    class Prob:
        in_dim = d

        def evaluate(self, x, noisy=True):
            return np.sin(3 * x @ A) + (x**2) @ np.abs(A)

    class Mod:
        def predict(self, x):
            f = Prob().evaluate(x)
            pert = np.random.default_rng(int(abs(f).sum() * 1e6) % 2**31).normal(size=f.shape) * noise
            return f + pert, None

    _HV.clear()
    np.random.seed(int(rng.integers(2**31)))
    try:
        out = calculate_hypervolume_discrepancy_for_model(order, Prob(), Mod())
    except AssertionError:
        out = None  # "Hypervolumes are the same." — the function's own refusal; values were still observed
    except Exception as e:
        mon.violation(f"hv:crash:{type(e).__name__}", repr(e), {"cone": label})
        return
    if len(_HV) >= 2:
        hv_true, hv_pred = _HV[0], _HV[1]
        mon.count("hv_events")
        mon.event(case_hash("hv", hv_true, hv_pred), hv_true > hv_pred, f"hv/{label}")
        if hv_pred > hv_true * (1 + 1e-9) + 1e-12:
            mon.violation("hv:pred-exceeds-true", f"{label}: HV(pred)={hv_pred} > HV(true)={hv_true}", {"cone": label})
        if out is not None and abs(out - np.log(hv_true - hv_pred)) > 1e-9:
            mon.violation("hv:wrong-log", f"returned {out}", {"cone": label})


def directed(mon):
    """D1 witness (regression corpus): unequal alpha."""
    from vopy.utils import get_smallmij

    order = gen.make_order("W", W=np.array(D1_W, float))
    W = order.ordering_cone.W
    a_or, _, _ = G.cone_alpha(W)
    vi, vj = np.zeros(3), np.array([3.0, 1.0, 1.0])
    want = G.small_m(W, a_or, vi, vj)
    got = float(get_smallmij(vi, vj, W, order.ordering_cone.alpha))
    mon.event(case_hash("D1"), True, "directed/D1")
    mon.count("smallmij_events")
    if abs(got - want) > 1e-6:
        mon.violation("smallmij:wrong", f"D1 witness: m(i,j)={got}, definition {want} (alpha={a_or})", {"W": W, "vi": vi, "vj": vj})


def shard(mon, tier, rng, shard_no, nshards):
    directed(mon)
    n = max(3, N[tier] // nshards)
    for it in range(n):
        m = int(rng.choice([2, 3, 3, 4]))
        fams = ["theta", "cone3d", "icecream", "random", "randomK", "orthant"]
        label, order = gen.random_order(rng, m, families=fams)
        if rng.random() < 0.25:
            # cones with strongly unequal alpha: one acute and one obtuse facet pair
            label, order = "unequal3", gen.make_order("W", W=np.array(D1_W, float))
            m = 3
        if it % 6 == 3:
            # the same cone described by facet rows that are NOT unit normals (positive row factors, or small integers): every
            # definition in the statement is geometric, so nothing may depend on the row norms — seeded/V07
            W0 = np.asarray(order.ordering_cone.W, float)
            if rng.random() < 0.5:
                W2 = W0 * rng.choice([0.25, 0.5, 2.0, 3.0, 5.0, 8.0], size=(len(W0), 1))
            else:
                W2 = W0 * float(rng.choice([0.2, 3.0, 4.0, 10.0]))
            label, order = label + "-rowscaled", gen.make_order("W", W=W2)
            mon.count("non_unit_row_cones")
        W = order.ordering_cone.W
        scale = gen.rand_scale(rng)
        if it % 7 == 5:
            scale = float(10 ** rng.uniform(5, 7))  # objectives that are not standardised: values around 1e6 (seeded/U05)
            mon.count("huge_magnitude_value_sets")
        X = value_set(rng, m, W, int(rng.integers(2, 41 if it % 4 else 13)), scale)
        if it % 5 == 4:
            # integer-typed value arrays (e.g. raw lattice data): the metrics must not depend on the dtype
            X = np.round(X / scale * 3).astype(np.int64)
            scale = 1.0
            mon.count("integer_dtype_value_sets")
        check_gaps(mon, rng, label, order, X)
        check_cover(mon, rng, label, order, X, scale)
        check_uncovered(mon, rng, label, order, X, scale)
        if len(X) <= 14:
            check_f1(mon, rng, label, order, X, scale)
        if len(mon.samples) < 2:
            mon.sample({"cone": label, "W": W, "X": X[:6]})
    for _ in range(3 if tier == "quick" else 25):
        check_hv(mon, rng)


def replay(mon, rec):
    from vopy.utils import get_smallmij, is_covered

    c = rec["case"]
    W = np.array(c["W"], float)
    order = gen.make_order("W", W=W)
    a_or, _, _ = G.cone_alpha(W)
    if "vi" in c:
        vi, vj = np.array(c["vi"], float), np.array(c["vj"], float)
        got = float(get_smallmij(vi, vj, W, order.ordering_cone.alpha))
        want = G.small_m(W, a_or, vi, vj)
        print(f"get_smallmij={got!r}; definition {want!r}; alpha oracle {a_or}")
        if "eps" in c:
            print("is_covered:", is_covered(vi, vj, c["eps"], W), " least cone-vector norm:", G.eps_cover_distance(W, vi, vj)[0])
        if abs(got - want) > 1e-6 * (1 + want):
            mon.violation(rec["mechanism"], "reproduced", c)
    elif "X" in c:
        X = np.array(c["X"], float)
        check_gaps(mon, np.random.default_rng(0), "replay", order, X)
        if "pred" in c and "true" in c:
            from vopy.utils.evaluate import calculate_epsilonF1_score

            print("F1:", calculate_epsilonF1_score(SimpleNamespace(out_data=X), order, np.array(c["true"]), np.array(c["pred"]), c["eps"]))
    else:
        print("recorded case:", c)
