"""C18 — adaptive discretisation tiles the domain; VOGP_AD declares only finest leaves.

Invariant at refine / step hooks with a shadow tree {node -> parent, children, cell}.  All cell
arithmetic is dyadic, hence exact in floats: volumes are compared with ==."""
from __future__ import annotations

import itertools

import numpy as np

from vmon import runchecks, runs
from vmon.core import case_hash

RULE = (
    "(a) direct refine_design sequences in random order on AdaptivelyDiscretizedDesignSpace for d=1..3, max depth 2..6, with "
    "region updates in between; should_refine_design at maximum depth for stub models of every scale; (b) VOGP_AD runs "
    "on user-defined continuous problems (d=2,3; orthant / theta / random cones; eps, contraction, max depth varied; GP "
    "trained on 64 Sobol points), checked after every step. One event per refinement / per run step. distinct = "
    "(sequence seed, step); non-trivial = a refinement happened or the step changed S/P."
)
ASSUMPTIONS = ["dyadic cell bounds are exact in float64 (depth <= 6)",
               "VOGP_AD cannot run on a 1-D domain (known finding K2, reported under C06); d=1 run-level invariants are not observed"]
N = {"quick": 32, "thorough": 900}
REQUIRE = {"quick": {"direct_refines": 300, "max_depth_refusals": 100, "run_steps": 120, "run_refines": 40, "runs_terminated": 10,
                     "pareto_declared_nodes": 5, "dims_1": 30, "dims_3": 30, "deep_ad_runs": 16, "gate_openings_seen_deep": 8, "big_tree_nodes_audited": 15000}}
TIMEOUT = {"quick": 1500, "thorough": 14400}


def vol(cell):
    v = 1.0
    for lo, hi in cell:
        v *= (hi - lo)
    return v


def interior_disjoint(c1, c2):
    return any(a[1] <= b[0] or b[1] <= a[0] for a, b in zip(c1, c2))


def inside(child, parent):
    return all(p[0] <= c[0] and c[1] <= p[1] for c, p in zip(child, parent))


class ShadowTree:
    def __init__(self, d):
        self.d = d
        self.parent = {0: None}
        self.children = {}
        self.cell = {0: [[0, 1] for _ in range(d)]}
        self.depth = {0: 1}

    def leaves(self):
        return [n for n in self.cell if n not in self.children]


def check_arrays(mon, ds, where, ctx):
    n = len(ds.points)
    if not (len(ds.point_depths) == len(ds.cells) == len(ds.confidence_regions) == n == ds.cardinality):
        mon.violation("adaptive:array-lengths", f"{where}: points {n}, depths {len(ds.point_depths)}, cells {len(ds.cells)}, regions "
                      f"{len(ds.confidence_regions)}, cardinality {ds.cardinality}", ctx)
        return False
    return True


def check_refinement(mon, ds, tree, parent, new_idx, before, ctx):
    """before: snapshot (n_points, parent region lower/upper, copies of parent's row)"""
    d = ds.domain_dim
    n0 = before["n"]
    ok = True
    if list(new_idx) != list(range(n0, n0 + 2**d)):
        mon.violation("adaptive:child-indices", f"refine of {parent}: returned {list(new_idx)}, expected {list(range(n0, n0 + 2 ** d))}", ctx)
        return
    if not check_arrays(mon, ds, "after refine", ctx):
        return
    pcell = tree.cell[parent]
    cells = [ds.cells[i] for i in new_idx]
    # parent entries unchanged
    if not np.array_equal(ds.points[parent], before["ppoint"]) or ds.point_depths[parent] != before["pdepth"] or ds.cells[parent] != before["pcell"]:
        mon.violation("adaptive:parent-changed", f"refine of {parent} modified the parent's entries", ctx)
    tot = 0.0
    for i, c in zip(new_idx, cells):
        c = [list(map(float, iv)) for iv in c]
        if len(c) != d:
            mon.violation("adaptive:cell-dimension", f"child {i} cell {c}", ctx)
            return
        sides = [iv[1] - iv[0] for iv in c]
        psides = [iv[1] - iv[0] for iv in pcell]
        if any(s != ps / 2 for s, ps in zip(sides, psides)):
            mon.violation("adaptive:child-not-half-side", f"child {i} cell {c} of parent cell {pcell}", ctx)
        if not inside(c, pcell):
            mon.violation("adaptive:child-outside-parent", f"child {i} cell {c} not within {pcell}", ctx)
        mid = np.array([(iv[0] + iv[1]) / 2 for iv in c])
        if not np.array_equal(np.asarray(ds.points[i], float), mid):
            mon.violation("adaptive:child-point-not-centre", f"child {i} point {ds.points[i]} vs cell centre {mid}", ctx)
        if ds.point_depths[i] != tree.depth[parent] + 1:
            mon.violation("adaptive:child-depth", f"child {i} depth {ds.point_depths[i]}, parent depth {tree.depth[parent]}", ctx)
        if ds.point_depths[i] > ds.max_depth:
            mon.violation("adaptive:beyond-max-depth", f"child {i} depth {ds.point_depths[i]} > max {ds.max_depth}", ctx)
        r = ds.confidence_regions[i]
        if not (np.array_equal(np.asarray(r.lower), before["plower"]) and np.array_equal(np.asarray(r.upper), before["pupper"])):
            mon.violation("adaptive:child-region-not-parents", f"child {i} starts from [{r.lower},{r.upper}], parent had [{before['plower']},{before['pupper']}]", ctx)
        tot += vol(c)
        tree.parent[i] = parent
        tree.cell[i] = c
        tree.depth[i] = tree.depth[parent] + 1
    for a, b in itertools.combinations(range(len(cells)), 2):
        if not interior_disjoint(cells[a], cells[b]):
            mon.violation("adaptive:children-overlap", f"children {new_idx[a]}, {new_idx[b]} overlap: {cells[a]} {cells[b]}", ctx)
    if tot != vol(pcell):
        mon.violation("adaptive:children-do-not-tile", f"children volume {tot} != parent volume {vol(pcell)}", ctx)
    tree.children[parent] = list(new_idx)


def snapshot_parent(ds, i):
    r = ds.confidence_regions[i]
    return {"n": len(ds.points), "ppoint": np.array(ds.points[i], copy=True), "pdepth": ds.point_depths[i],
            "pcell": [list(iv) for iv in ds.cells[i]], "plower": np.array(r.lower, copy=True), "pupper": np.array(r.upper, copy=True)}


class StubAD:
    def __init__(self, rng, d, m):
        self.A = rng.normal(size=(d, m))
        self.m, self.d = m, d
        self.ls = 10 ** rng.uniform(-1, 0.5, size=(m, d))
        self.var = 10 ** rng.uniform(-1, 1, size=m)
        self.sd = 10 ** rng.uniform(-4, 1)

    def predict(self, X):
        X = np.asarray(X, float)
        cov = np.eye(self.m) * self.sd**2
        if getattr(self, "flat", False):
            cov[0, 0] = 0.0  # one objective known exactly: a zero-width side
        return np.sin(X @ self.A), np.repeat(cov[None], len(X), 0)

    def get_lengthscale_and_var(self):
        return self.ls[:, 0], self.var

    def get_kernel_type(self):
        return "RBF"


def direct_sequence(mon, rng):
    from vopy.design_space import AdaptivelyDiscretizedDesignSpace

    d = int(rng.integers(1, 4))
    m = int(rng.integers(2, 4))
    max_depth = int(rng.integers(1, 7 if d < 3 else 5))
    ds = AdaptivelyDiscretizedDesignSpace(d, m, delta=float(rng.choice([0.05, 0.1, 0.3])), max_depth=max_depth)
    tree = ShadowTree(d)
    model = StubAD(rng, d, m)
    mon.count(f"dims_{d}")
    ctx = {"d": d, "m": m, "max_depth": max_depth}
    for step in range(int(rng.integers(3, 25))):
        leaves = [n for n in tree.leaves() if tree.depth[n] < max_depth]
        at_max = [n for n in tree.leaves() if tree.depth[n] >= max_depth]
        # should_refine_design is False at the maximum depth for every model and scale
        for n in at_max[:3]:
            model.sd = 10 ** rng.uniform(-8, 2)
            scale = np.array(10 ** rng.uniform(-3, 2))
            mon.count("max_depth_refusals")
            try:
                if ds.should_refine_design(model, n, scale):
                    mon.violation("adaptive:refine-at-max-depth", f"should_refine_design True at depth {tree.depth[n]} = max", ctx)
            except Exception as e:
                mon.violation(f"adaptive:should-refine-crash:{type(e).__name__}", repr(e), ctx)
        if not leaves or len(ds.points) > 400:
            break
        if rng.random() < 0.3:
            idx = [int(i) for i in rng.choice(len(ds.points), size=min(3, len(ds.points)), replace=False)]
            ds.update(model, np.array(float(10 ** rng.uniform(-1, 1))), idx)
        parent = int(rng.choice(leaves))
        if rng.random() < 0.4:
            model.flat = bool(rng.random() < 0.5)
            model.sd = 10 ** rng.uniform(-2, 0)
            ds.update(model, np.array(float(10 ** rng.uniform(-1, 1))), [parent])  # the parent's region is a real (possibly flat) box
            model.flat = False
            mon.count("refines_of_updated_parent")
        before = snapshot_parent(ds, parent)
        try:
            new_idx = ds.refine_design(parent)
        except Exception as e:
            mon.violation(f"adaptive:refine-crash:{type(e).__name__}", repr(e), ctx)
            return
        mon.count("direct_refines")
        mon.event(case_hash("r", d, step, parent, len(ds.points)), True, f"direct/d{d}")
        check_refinement(mon, ds, tree, parent, new_idx, before, {**ctx, "parent": parent, "step": step})
        # global tiling: leaves tile the unit cube
        lv = tree.leaves()
        if sum(vol(tree.cell[n]) for n in lv) != 1.0:
            mon.violation("adaptive:leaves-do-not-tile", f"leaf volumes sum to {sum(vol(tree.cell[n]) for n in lv)}", ctx)
        # should_refine below max depth returns a bool and does not mutate
        n_pts = len(ds.points)
        try:
            out = ds.should_refine_design(model, int(rng.choice(lv)), np.array(float(10 ** rng.uniform(-2, 1))))
            if len(ds.points) != n_pts or not isinstance(bool(out), bool):
                mon.violation("adaptive:should-refine-mutates", "should_refine_design changed the design space", ctx)
        except Exception as e:
            mon.violation(f"adaptive:should-refine-crash:{type(e).__name__}", repr(e), ctx)
    if len(mon.samples) < 2:
        mon.sample({"d": d, "max_depth": max_depth, "n_points": len(ds.points), "cells_head": ds.cells[:5]})


def big_tree(mon, rng, target):
    """one tree grown to `target` (> 4096, > 8192) nodes by refining random leaves: every refinement is checked as usual and
    the whole tree is audited at the end (capacity thresholds of the node arrays — seeded/W05)"""
    from vopy.design_space import AdaptivelyDiscretizedDesignSpace

    d = int(rng.integers(1, 4))
    max_depth = {1: 16, 2: 9, 3: 6}[d]
    m = 2
    ds = AdaptivelyDiscretizedDesignSpace(d, m, delta=0.1, max_depth=max_depth)
    tree = ShadowTree(d)
    model = StubAD(rng, d, m)
    ctx = {"d": d, "m": m, "max_depth": max_depth, "big_tree": True}
    leaves = [0]
    while len(ds.points) < target and leaves:
        k = int(rng.integers(len(leaves)))
        leaves[k], leaves[-1] = leaves[-1], leaves[k]
        parent = leaves.pop()
        if tree.depth[parent] >= max_depth:
            continue
        if rng.random() < 0.05:
            ds.update(model, np.array(1.0), [parent])
        before = snapshot_parent(ds, parent)
        try:
            new_idx = ds.refine_design(parent)
        except Exception as e:
            mon.violation(f"adaptive:refine-crash:{type(e).__name__}", repr(e), ctx)
            return
        nv = len(mon.violations)
        check_refinement(mon, ds, tree, parent, new_idx, before, {**ctx, "parent": parent, "n_points": len(ds.points)})
        mon.count("big_tree_refines")
        if len(mon.violations) > nv:
            return
        leaves.extend(int(i) for i in new_idx)
    # audit of the whole tree: nothing written earlier was disturbed later
    n = len(ds.points)
    mon.count("big_tree_nodes_audited", n)
    mon.event(case_hash("bigtree", d, n), True, f"bigtree/d{d}")
    if not check_arrays(mon, ds, "big tree audit", ctx):
        return
    P = np.asarray(ds.points, float)
    C = np.array([[[float(iv[0]), float(iv[1])] for iv in tree.cell[i]] for i in range(n)])
    if not np.array_equal(P, C.mean(axis=2)):
        bad = np.nonzero((P != C.mean(axis=2)).any(axis=1))[0]
        mon.violation("adaptive:point-not-centre-after-growth", f"{len(bad)} of {n} nodes no longer sit at their cell centre, first {bad[:5].tolist()}", ctx)
    for i in range(n):
        if [list(map(float, iv)) for iv in ds.cells[i]] != tree.cell[i] or ds.point_depths[i] != tree.depth[i]:
            mon.violation("adaptive:node-entry-changed-later", f"node {i}: cell {ds.cells[i]} depth {ds.point_depths[i]}, recorded {tree.cell[i]} depth {tree.depth[i]}", ctx)
            break
    lv = [i for i in range(n) if i not in tree.children]
    if sum(vol(tree.cell[i]) for i in lv) != 1.0:
        mon.violation("adaptive:leaves-do-not-tile", f"big tree: leaf volumes sum to {sum(vol(tree.cell[i]) for i in lv)}", ctx)


def vogp_ad_run(mon, rng, tier, deep=False):
    if deep:
        # a 1-D domain refined to depth 6-10 (cells down to 2^-10 wide) on the small exact numpy GP: depths the fitted
        # gpytorch model cannot reach in a check's budget — seeded/Z02-vogpad-gate-by-cell-side-isclose
        case, order = runs.make_ad_case(rng, d=1, depth_max=int(rng.integers(6, 11)), eps=float(rng.choice([0.2, 0.3, 0.5])),
                                        contraction=float(rng.choice([8, 16, 32])))
        case["model"] = "numpy-gp"
        case["lengthscale"] = float(rng.choice([0.2, 0.3, 0.5]))
        case["max_rounds"] = 200
        mon.count("deep_ad_runs")
    else:
        case, order = runs.make_ad_case(rng, eps=float(rng.choice([0.2, 0.3, 0.5, 0.8])) if tier == "thorough" else float(rng.choice([0.3, 0.5, 0.8])))
        case["max_rounds"] = 120 if tier == "quick" else 250
    d = case["in_dim"]
    tree = ShadowTree(d)
    state = {"latch": False, "discarded": set(), "declared": set()}
    ctx = {k: case[k] for k in ("cone", "in_dim", "m", "eps", "contraction", "depth_max", "seed", "model")}

    def per_step(tr, rec):
        if rec["crash"] is not None:
            return
        alg = tr.alg
        ds = alg.design_space
        mon.count("run_steps")
        S0, P0, _ = rec["pre"]
        S1, P1, _ = rec["post"]
        mon.event(case_hash("ad", case["seed"], rec["round_pre"]), (S0, P0) != (S1, P1), f"run/d{d}/{case['cone']}")
        sctx = {**ctx, "round": rec["round_pre"]}
        if not check_arrays(mon, ds, "after step", sctx):
            return
        # refinement this step?
        n0, n1 = rec["npoints_pre"], len(ds.points)
        if n1 != n0:
            mon.count("run_refines")
            new_idx = list(range(n0, n1))
            ph = runchecks.phase(rec, "evaluate_refine")
            S_b, P_b, _ = ph["pre"]
            gone = (S_b | P_b) - (S1 | P1)
            if len(gone) != 1:
                mon.violation("adaptive:refine-bookkeeping", f"{len(gone)} active nodes disappeared in a refining step: {gone}", sctx)
                return
            parent = next(iter(gone))
            regs = ph["regions"].get(parent)
            before = {"n": n0, "ppoint": ds.points[parent], "pdepth": ds.point_depths[parent], "pcell": ds.cells[parent],
                      "plower": regs[1], "pupper": regs[2]}
            check_refinement(mon, ds, tree, parent, new_idx, before, {**sctx, "parent": parent})
            # replaced by its children in the same set
            in_S = parent in S_b
            target = S1 if in_S else P1
            other = P1 if in_S else S1
            if not set(new_idx) <= target or set(new_idx) & other:
                mon.violation("adaptive:children-in-wrong-set", f"parent {parent} was in {'S' if in_S else 'P'}; children {new_idx}: S={sorted(S1)}, P={sorted(P1)}", sctx)
            if rec["req_end"] != rec["req_start"]:
                mon.violation("adaptive:refine-and-sample", "a refining step also requested an observation", sctx)
        # active nodes are leaves, pairwise interior-disjoint
        active = S1 | P1
        for n in active:
            if n in tree.children:
                mon.violation("adaptive:refined-node-still-active", f"node {n} was refined but is still in {'S' if n in S1 else 'P'}", sctx)
                return
        act = sorted(active)
        for a, b in itertools.combinations(act, 2):
            if not interior_disjoint(ds.cells[a], ds.cells[b]):
                mon.violation("adaptive:active-cells-overlap", f"active nodes {a},{b}: {ds.cells[a]} {ds.cells[b]}", sctx)
                return
        # active + discarded leaves tile the unit cube
        state["discarded"] |= (S0 - S1 - P1) - set(tree.children)
        leaves = set(tree.leaves())
        if not (active <= leaves and state["discarded"] <= leaves):
            mon.violation("adaptive:non-leaf-tracked", "an active or discarded node is not a leaf", sctx)
        accounted = active | state["discarded"]
        if accounted != leaves:
            mon.violation("adaptive:leaf-lost", f"leaves {sorted(leaves - accounted)} are neither active nor discarded; extra {sorted(accounted - leaves)}", sctx)
        if sum(vol(ds.cells[n]) for n in accounted) != 1.0:
            mon.violation("adaptive:leaves-do-not-tile", f"active+discarded leaf volume {sum(vol(ds.cells[n]) for n in accounted)}", sctx)
        # declared Pareto only at maximum depth; latch monotone; never beyond max depth
        newP = P1 - P0 - set(range(n0, n1))
        for n in newP:
            state["declared"].add(n)
            mon.count("pareto_declared_nodes")
            if ds.point_depths[n] != alg.max_discretization_depth:
                mon.violation("adaptive:declared-below-max-depth", f"node {n} entered P at depth {ds.point_depths[n]} < {alg.max_discretization_depth}", sctx)
        for n in P1:
            if ds.point_depths[n] != alg.max_discretization_depth:
                mon.violation("adaptive:P-member-below-max-depth", f"member {n} of P has depth {ds.point_depths[n]}", sctx)
        if max(ds.point_depths) > alg.max_discretization_depth:
            mon.violation("adaptive:beyond-max-depth", f"depth {max(ds.point_depths)} > {alg.max_discretization_depth}", sctx)
        latch = bool(alg.enable_epsilon_covering)
        if state["latch"] and not latch:
            mon.violation("adaptive:latch-reset", "the epsilon-covering gate closed again", sctx)
        if latch and not state["latch"]:
            mon.count("gate_openings_seen" + ("_deep" if deep else ""))
        if latch and not state["latch"] and not rec.get("all_S_at_max_depth", True):
            mon.violation("adaptive:gate-opened-early", "epsilon-covering enabled while a candidate was below the maximum depth", sctx)
        state["latch"] = latch

    tr = runs.run_ad_case(case, order, mon, per_step=per_step)
    mon.count("ad_runs")
    if tr.ctor_crash or tr.crashed:
        mon.count("ad_runs_crashed")  # crashes are C06's business
    elif tr.terminated:
        mon.count("runs_terminated")
    else:
        mon.count("ad_runs_cap_reached")
    if len(mon.samples) < 3 and tr.alg is not None:
        mon.sample({**ctx, "rounds": len(tr.steps), "nodes": len(tr.alg.design_space.points), "P": sorted(tr.alg.P)})


def shard(mon, tier, rng, shard_no, nshards):
    if tier == "thorough" or shard_no % 4 == 0:
        big_tree(mon, rng, 4500 if shard_no % 8 else 8800)
    n = max(2, N[tier] // nshards)
    for it in range(n):
        for _ in range(8):
            direct_sequence(mon, rng)
        vogp_ad_run(mon, rng, tier)
        vogp_ad_run(mon, rng, tier)
        for _ in range(1 if tier == "quick" else 3):
            vogp_ad_run(mon, rng, tier, deep=True)
