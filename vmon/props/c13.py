"""C13 — Pareto-set extraction is exact for every finite set and cone.

Oracle: brute-force strict-dominance matrix in exact integer arithmetic (lattice inputs) or with a
band check (float inputs).  Exhaustive over ordered tuples of <=4 (quick) / <=5 (thorough) lattice
points, random sets up to 300 points with planted duplicates and chains."""
from __future__ import annotations

import itertools

import numpy as np

from vmon import gen
from vmon.core import case_hash

RULE = (
    "exhaustive ordered tuples (length 1..4 quick, ..5 thorough) over a 3x3 (2x2x2 in 3-D; 4x4 thorough) "
    "integer lattice under integer cones incl. K>m; random float sets (2..300 points, m=2..4) with planted "
    "exact duplicates, dominated chains and ties under all cone families; both routines. distinct = "
    "(cone, tuple) hash; non-trivial = at least two points and at least one dominance relation or duplicate."
)
ASSUMPTIONS = ["integer lattice dominance is exact in float64",
               "random float sets with a pair inside the 1e-9 band of a facet are skipped (counted)"]
REQUIRE = {"quick": {"exhaustive_cases": 20000, "random_sets": 100, "naive_cases": 10000, "dup_cases": 3000, "large_sets": 16}}
TIMEOUT = {"quick": 900, "thorough": 5400}

INT_W2 = [[[1, 0], [0, 1]], [[2, -1], [-1, 2]], [[1, 2], [2, 1]], [[1, 0], [0, 1], [1, 1]], [[3, -1], [-1, 3], [1, 0]]]
INT_W3 = [[[1, 0, 0], [0, 1, 0], [0, 0, 1]], [[1, -2, 4], [4, 1, -2], [-2, 4, 1]],
          [[1, 0, 0], [0, 1, 0], [0, 0, 1], [1, 1, -1]]]


_LAYOUT_RNG = np.random.default_rng(13)


def oracle(Wi, X, exact=True, tol=0.0):
    """returns (set of non-dominated distinct value tuples, list of nondominated indices, ok)"""
    X = np.asarray(X)
    diff = X[:, None, :] - X[None, :, :]
    vals = diff @ np.asarray(Wi).T  # vals[i,j,:] = W (x_i - x_j)
    weak = (vals >= 0).all(-1)  # i weakly dominates j
    same = (diff == 0).all(-1)
    strict = weak & ~same
    ok = True
    if not exact:
        mn = np.abs(vals).min(-1)
        mag = np.abs(X).max() + 1e-300
        close = (np.abs(vals) < 1e-9 * mag) & ~same[:, :, None]
        ok = not close.any()
    nd = ~strict.any(axis=0)  # j is non-dominated
    values = {tuple(X[j].tolist()) for j in np.nonzero(nd)[0]}
    return values, np.nonzero(nd)[0], ok, strict, weak


def check_case(mon, order, Wi, X, cls, exact=True, do_naive=True):
    X = np.asarray(X, float)
    values, nd_idx, ok, strict, weak = oracle(Wi, X, exact)
    if not ok:
        mon.count("inside_band")
        return
    n = len(X)
    nontrivial = n >= 2 and (strict.any() or len({tuple(r) for r in X.tolist()}) < n)
    mon.event(case_hash(cls, Wi, X), nontrivial, cls)
    if len({tuple(r) for r in X.tolist()}) < n:
        mon.count("dup_cases")
    case = {"W": np.asarray(Wi), "X": X}
    arg = gen.exotic(X, _LAYOUT_RNG) if _LAYOUT_RNG.random() < 0.2 else X.copy()
    if _LAYOUT_RNG.random() < 0.25 and np.abs(X).max() < 1e6 and (X == np.round(X)).all():
        # integer-valued data handed over with an integer or single-precision dtype (exactly representable either way)
        arg = X.astype([np.int64, np.int32, np.float32][int(_LAYOUT_RNG.integers(3))])
        mon.count("non_float64_inputs")
    try:
        res = order.get_pareto_set(arg)
    except Exception as e:
        mon.violation(f"pareto:crash:{type(e).__name__}", f"get_pareto_set raised {e!r}", case)
        return
    res = np.asarray(res)
    if res.ndim != 1 or (len(res) and (res.min() < 0 or res.max() >= n)) or not np.issubdtype(res.dtype, np.integer):
        mon.violation("pareto:invalid-indices", f"indices {res}", case)
        return
    if len(set(res.tolist())) != len(res) or (np.diff(res) <= 0).any():
        mon.violation("pareto:indices-not-increasing-distinct", f"indices {res}", case)
    got_vals = [tuple(X[i].tolist()) for i in res]
    if len(set(got_vals)) != len(got_vals):
        mon.violation("pareto:duplicate-value-kept", f"fast routine returned equal values twice: {res}", case)
    if set(got_vals) != values:
        extra = set(got_vals) - values
        missing = values - set(got_vals)
        mon.violation("pareto:wrong-set" + (":dominated-kept" if extra else ":optimal-dropped"),
                      f"fast routine {sorted(got_vals)} vs oracle {sorted(values)}", case)
    # every input weakly dominated by a returned one
    if len(res) and not weak[res].any(axis=0).all():
        mon.violation("pareto:not-covering", "an input is not weakly dominated by any returned vector", case)
    if do_naive:
        mon.count("naive_cases")
        try:
            rn = np.asarray(order.get_pareto_set_naive(X.copy()))
        except Exception as e:
            mon.violation(f"pareto-naive:crash:{type(e).__name__}", f"get_pareto_set_naive raised {e!r}", case)
            return
        if rn.tolist() != nd_idx.tolist():
            mon.violation("pareto-naive:wrong-set", f"naive {rn.tolist()} vs oracle {nd_idx.tolist()}", case)


def exhaustive(mon, tier, shard_no, nshards):
    jobs = []
    pts2 = [np.array(p) for p in itertools.product(range(3), repeat=2)]
    pts3 = [np.array(p) for p in itertools.product(range(2), repeat=3)]
    maxlen = 4 if tier == "quick" else 5
    for Wl in INT_W2:
        jobs.append((Wl, pts2, maxlen))
    for Wl in INT_W3:
        jobs.append((Wl, pts3, 4))
    if tier == "thorough":
        pts4 = [np.array(p) for p in itertools.product(range(4), repeat=2)]
        for Wl in INT_W2[:4]:
            jobs.append((Wl, pts4, 4))
    k = 0
    for Wl, pts, ml in jobs:
        Wi = np.array(Wl)
        order = gen.make_order("W", W=Wi.astype(float))
        for L in range(1, ml + 1):
            for tup in itertools.product(range(len(pts)), repeat=L):
                k += 1
                if k % nshards != shard_no:
                    continue
                X = np.array([pts[i] for i in tup])
                check_case(mon, order, Wi, X, f"exh/{Wi.shape[0]}x{Wi.shape[1]}/L{L}", exact=True)
                mon.count("exhaustive_cases")
                if len(mon.samples) < 2 and L == 3 and k % 97 == 0:
                    mon.sample({"W": Wl, "X": X})


def random_sets(mon, rng, n_sets, maxn):
    for _ in range(n_sets):
        m = int(rng.choice([2, 2, 3, 4]))
        label, order = gen.random_order(rng, m)
        W = order.ordering_cone.W
        n = int(rng.integers(2, maxn + 1))
        scale = gen.rand_scale(rng)
        X = rng.normal(size=(n, m)) * scale
        # planted duplicates
        for _d in range(int(rng.integers(0, max(1, n // 4) + 1))):
            i, j = rng.integers(n, size=2)
            X[i] = X[j]
        # planted chains along an interior direction
        u = gen.interior_dir(W)
        for _c in range(int(rng.integers(0, 4))):
            i = int(rng.integers(n))
            for step in range(int(rng.integers(1, 5))):
                j = int(rng.integers(n))
                X[j] = X[i] + u * scale * (step + 1) * 0.3
        perm = rng.permutation(n)
        X = X[perm]
        mon.count("random_sets")
        check_case(mon, order, W, X, f"rand/{label}", exact=False, do_naive=(n <= 80))


def large_sets(mon, rng, n_sets, shard_no):
    """513-4500 vectors, many of them exact copies of optimal values spread over the whole index range: size thresholds of a
    divide-and-conquer / chunked implementation only bite here (seeded/V08-pareto-set-split-merge-drops-duplicates)"""
    for k in range(n_sets):
        m = int(rng.choice([2, 2, 3]))
        label, order = gen.random_order(rng, m, allow_Kgtm=bool(rng.random() < 0.3))
        W = order.ordering_cone.W
        n = int(rng.integers(513, 1200)) if (k + shard_no) % 3 else int(rng.integers(2049, 4500))
        if rng.random() < 0.5:
            X = rng.integers(0, int(rng.choice([4, 8, 30])), size=(n, m)).astype(float)  # lattice: every optimal value occurs many times
        else:
            X = rng.normal(size=(n, m))
            src = rng.integers(n, size=n // 3)
            dst = rng.integers(n, size=n // 3)
            X[dst] = X[src]  # planted exact copies across the index range
        mon.count("large_sets")
        check_case(mon, order, W, X, f"large/{label}", exact=False, do_naive=False)


def shard(mon, tier, rng, shard_no, nshards):
    exhaustive(mon, tier, shard_no, nshards)
    large_sets(mon, rng, 2 if tier == "quick" else 30, shard_no)
    if tier == "quick":
        random_sets(mon, rng, 10, 120)
        random_sets(mon, rng, 1, 300)
    else:
        random_sets(mon, rng, 800, 150)
        random_sets(mon, rng, 30, 300)


def replay(mon, rec):
    c = rec["case"]
    W = np.array(c["W"], float)
    order = gen.make_order("W", W=W)
    X = np.array(c["X"], float)
    print("fast :", order.get_pareto_set(X.copy()).tolist())
    print("naive:", order.get_pareto_set_naive(X.copy()).tolist())
    check_case(mon, order, W, X, "replay", exact=False)
