"""C09 — region 'is dominated' decides  forall z in R1, z' in R2 : z' + slack dominates z.

Reference-model monitor: the real classmethods and the dispatch helper are called on generated
pairs (translated so that the oracle margin sits at +-gamma*scale) and compared with the
closed-form support-function oracle.  Rectangles: exact arithmetic up to rounding, so the band
is 1e-12 relative and the boundary itself is demanded on integer lattices."""
from __future__ import annotations

import numpy as np

from vmon import gen, predicates as P
from vmon.core import case_hash
from vmon.oracles import geometry as G

RULE = (
    "random region pairs (rect m=2..4, ellipsoid m=2..3; scales 1e-4..1e2; modes disjoint/overlap/"
    "nested/touching/identical/degenerate/needle/aniso), cones from all bundled families + random "
    "KxM (K>=m), slack 0/scalar/vector; second region translated along a cone-interior direction so "
    "the oracle margin is +-gamma*scale, gamma in {1e-1,1e-2,1e-3}; plus integer lattices with the "
    "margin exactly 0. distinct = hash of rounded inputs; non-trivial = oracle margin decisive "
    "(outside the tolerance band)."
)
ASSUMPTIONS = [
    "oracle: per-facet support functions in closed form (numpy only)",
    "band: rectangles 1e-12*(1+mag); ellipsoids 2e-6+1e-4*mag (calibrated against the default SOCP solver)",
    "ellipsoid anisotropy (axis ratio) limited to 1e3: beyond that sqrtm(inv(Sigma)) is ill-conditioned",
]
N = {"quick": 1200, "thorough": 40000}
REQUIRE = {
    "quick": {"decisive_true": 200, "decisive_false": 200, "lattice_boundary": 50, "ell_events": 200,
              "rect_events": 500},
}
TIMEOUT = {"quick": 900, "thorough": 3600}

INT_W = {
    2: [
        [[1, 0], [0, 1]],
        [[2, -1], [-1, 2]],
        [[1, 0], [1, 1]],
        [[1, 2], [2, 1]],
        [[1, 0], [0, 1], [1, 1]],
        [[3, -1], [-1, 3], [1, 1]],
    ],
    3: [
        [[1, 0, 0], [0, 1, 0], [0, 0, 1]],
        [[1, -2, 4], [4, 1, -2], [-2, 4, 1]],
        [[1, 0, 0], [0, 1, 0], [0, 0, 1], [1, 1, 1]],
    ],
}


def call_real(mon, order, r1, r2, slack, via):
    from vopy import confidence_region as CR

    if via == "dispatch":
        return CR.confidence_region_is_dominated(order, r1, r2, slack)
    cls = type(r1)
    return cls.is_dominated(order, r1, r2, slack)


def rect_case(mon, rng, label, order, m):
    W = order.ordering_cone.W
    lo1, hi1, lo2, hi2, mode, scale = gen.rect_pair(rng, m)
    sk = str(rng.choice(["zero", "scalar", "vector"]))
    if sk == "zero":
        slack = 0
    elif sk == "scalar":
        slack = float(scale * 10 ** rng.uniform(-2, 0))
        if rng.random() < 0.3:
            slack = np.array(slack)  # a 0-d array is a scalar too
    else:
        slack = np.abs(rng.normal(size=m)) * scale * 10 ** rng.uniform(-2, 0)
    d = gen.interior_dir(W)
    rates = W @ d
    targets = [None] + [float(s * g * scale) for g in gen.GAMMAS for s in (1, -1) if rng.random() < 0.6]
    for tgt in targets:
        if tgt is None:
            tau = 0.0
        else:
            tau = gen.aim(
                lambda t: G.rect_dominated_margin(W, lo1, hi1, lo2 + t * d, hi2 + t * d, slack)[0],
                None, rates, tgt)
        l2, h2 = lo2 + tau * d, hi2 + tau * d
        margin, per = G.rect_dominated_margin(W, lo1, hi1, l2, h2, slack)
        mag = float(max(np.abs(lo1).max(), np.abs(hi1).max(), np.abs(l2).max(), np.abs(h2).max(),
                        np.abs(np.asarray(slack)).max()))
        case = {"kind": "rect", "cone": label, "W": W, "lo1": lo1, "hi1": hi1, "lo2": l2, "hi2": h2,
                "slack": slack, "mode": mode}
        via = "dispatch" if rng.random() < 0.5 else "classmethod"
        mon.count("rect_events")
        e0 = P.NATURAL_SOLVER_ERRORS[0]
        try:
            ans = call_real(mon, order, P.mk_rect(lo1, hi1), P.mk_rect(l2, h2),
                            slack if sk == "zero" else np.asarray(slack), via)
        except Exception as e:  # the predicate did not decide
            mon.violation(P.crash_mechanism(e), f"is_dominated raised {e!r}", case)
            continue
        h = case_hash("r", W, lo1, hi1, l2, h2, np.asarray(slack, float))
        P.judge(mon, "C09", "rect.is_dominated", ans, margin, margin, P.band("rect-exact", mag), case, h,
                f"rect/{label}/{mode}/slack-{sk}")
        if len(mon.samples) < 2:
            mon.sample({**case, "oracle_margin": margin, "answer": bool(ans)})


def lattice_case(mon, rng):
    from vopy.order import PolyhedralConeOrder
    from vopy.ordering_cone import OrderingCone

    m = int(rng.choice([2, 2, 3]))
    Wl = INT_W[m][int(rng.integers(len(INT_W[m])))]
    order = gen.make_order("W", W=np.array(Wl, float))
    W = order.ordering_cone.W
    lo1 = rng.integers(-4, 5, size=m).astype(float)
    hi1 = lo1 + rng.integers(0, 4, size=m)
    lo2 = rng.integers(-4, 5, size=m).astype(float)
    hi2 = lo2 + rng.integers(0, 4, size=m)
    slack = float(rng.integers(0, 3)) if rng.random() < 0.5 else rng.integers(0, 3, size=m).astype(float)
    # move region 2 on the lattice until the margin is exactly zero (when reachable)
    for _ in range(12):
        margin, per = G.rect_dominated_margin(W, lo1, hi1, lo2, hi2, slack)
        if margin == 0:
            break
        k = int(rng.integers(m))
        step = 1.0 if margin < 0 else -1.0
        # any integer move that raises/lowers the worst facet
        n = int(np.argmin(per))
        k = int(np.argmax(np.abs(W[n])))
        step *= np.sign(W[n, k])
        lo2[k] += step
        hi2[k] += step
    margin, per = G.rect_dominated_margin(W, lo1, hi1, lo2, hi2, slack)
    case = {"kind": "rect-lattice", "W": W, "lo1": lo1, "hi1": hi1, "lo2": lo2, "hi2": hi2, "slack": slack}
    try:
        ans = call_real(mon, order, P.mk_rect(lo1, hi1), P.mk_rect(lo2, hi2), np.asarray(slack), "dispatch")
    except Exception as e:
        mon.violation(P.crash_mechanism(e), f"is_dominated raised {e!r}", case)
        return
    h = case_hash("L", W, lo1, hi1, lo2, hi2, np.asarray(slack, float))
    expected = margin >= 0
    if margin == 0:
        mon.count("lattice_boundary")
    mon.count("decisive_true" if expected else "decisive_false")
    mon.event(h, nontrivial=True, cls=f"lattice/m{m}/{'boundary' if margin == 0 else 'off'}")
    if bool(ans) != expected:
        mon.violation(
            f"rect.is_dominated:lattice-{'boundary' if margin == 0 else 'off'}",
            f"exact data: margin {margin} => {expected}, code returned {bool(ans)}", case)


def ell_case(mon, rng, label, order, m):
    W = order.ordering_cone.W
    K = W.shape[0]
    c1, S1, a1, c2, S2, a2, mode, scale = gen.ell_pair(rng, m)
    sk = str(rng.choice(["zero", "scalar", "vector"]))
    if sk == "zero":
        slack = 0
    elif sk == "scalar":
        slack = float(scale * 10 ** rng.uniform(-2, 0))
        if rng.random() < 0.3:
            slack = np.array(slack)  # a 0-d array is a scalar too
    else:
        slack = np.abs(rng.normal(size=K)) * scale * 10 ** rng.uniform(-2, 0)
    d = gen.interior_dir(W)
    rates = W @ d
    targets = [None] + [float(s * g * scale) for g in gen.GAMMAS for s in (1, -1) if rng.random() < 0.4]
    for tgt in targets:
        if tgt is None:
            tau = 0.0
        else:
            tau = gen.aim(lambda t: G.ell_dominated_margin(W, c1, S1, a1, c2 + t * d, S2, a2, slack)[0],
                          None, rates, tgt)
        cc2 = c2 + tau * d
        margin, per = G.ell_dominated_margin(W, c1, S1, a1, cc2, S2, a2, slack)
        ext = max(a1 * np.sqrt(np.linalg.eigvalsh(S1).max()), a2 * np.sqrt(np.linalg.eigvalsh(S2).max()))
        mag = float(max(np.abs(c1).max(), np.abs(cc2).max(), ext, np.abs(np.asarray(slack)).max()))
        case = {"kind": "ell", "cone": label, "W": W, "c1": c1, "S1": S1, "a1": a1, "c2": cc2, "S2": S2,
                "a2": a2, "slack": slack, "mode": mode}
        via = "dispatch" if rng.random() < 0.5 else "classmethod"
        mon.count("ell_events")
        e0 = P.NATURAL_SOLVER_ERRORS[0]
        try:
            ans = call_real(mon, order, P.mk_ell(c1, S1, a1), P.mk_ell(cc2, S2, a2),
                            slack if sk != "vector" else np.asarray(slack), via)
        except Exception as e:
            mon.violation(P.crash_mechanism(e), f"is_dominated raised {e!r}", case)
            continue
        h = case_hash("e", W, c1, S1, a1, cc2, S2, a2, np.asarray(slack, float))
        P.judge(mon, "C09", "ell.is_dominated", ans, margin, margin, P.band("socp", mag, fallback=P.NATURAL_SOLVER_ERRORS[0] > e0), case, h,
                f"ell/{label}/{mode}/slack-{sk}")
        if 2 <= len(mon.samples) < 4:
            mon.sample({**case, "oracle_margin": margin, "answer": bool(ans)})


def shard(mon, tier, rng, shard_no, nshards):
    P.install_solver_logger()
    n = max(4, N[tier] // nshards)
    for i in range(n):
        r = rng.random()
        if r < 0.45:
            m = int(rng.choice([2, 2, 3, 4]))
            label, order = gen.random_order(rng, m, rowscale_p=0.15)
            rect_case(mon, rng, label, order, m)
        elif r < 0.65:
            for _ in range(4):
                lattice_case(mon, rng)
        else:
            m = int(rng.choice([2, 2, 3, 4]))
            label, order = gen.random_order(rng, m, rowscale_p=0.15)
            ell_case(mon, rng, label, order, m)
    mon.notes["solver_status_seen"] = dict(P.SOLVER_STATUS)
    mon.count("natural_solver_errors", P.NATURAL_SOLVER_ERRORS[0])


def replay(mon, rec):
    c = rec["case"]
    W = np.array(c["W"], float)
    order = gen.make_order("W", W=W)
    slack = c["slack"]
    slack = np.array(slack, float) if isinstance(slack, list) else slack
    if c["kind"].startswith("rect"):
        ans = call_real(mon, order, P.mk_rect(c["lo1"], c["hi1"]), P.mk_rect(c["lo2"], c["hi2"]),
                        np.asarray(slack), "dispatch")
        margin, _ = G.rect_dominated_margin(W, np.array(c["lo1"]), np.array(c["hi1"]), np.array(c["lo2"]),
                                            np.array(c["hi2"]), slack)
    else:
        ans = call_real(mon, order, P.mk_ell(c["c1"], c["S1"], c["a1"]), P.mk_ell(c["c2"], c["S2"], c["a2"]),
                        slack, "dispatch")
        margin, _ = G.ell_dominated_margin(W, np.array(c["c1"]), np.array(c["S1"]), c["a1"], np.array(c["c2"]),
                                           np.array(c["S2"]), c["a2"], slack)
    print(f"real answer={bool(ans)} oracle margin={margin!r} (dominated iff margin>=0)")
    if bool(ans) != (margin >= 0):
        mon.violation(rec["mechanism"], "reproduced", c)
