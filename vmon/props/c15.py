"""C15 — GP models return the exact posterior of exactly the data they hold.

Shadow data + closed-form conditioning: the monitor keeps its own copy of every sample handed to
add_sample and freezes it at every update(); predict() is compared with dense-Cholesky
conditioning on Gram matrices evaluated by the model's own kernel/mean/noise modules.  Direct
consequences (order/batching invariance, locality in the model list, forgetting, prior when
empty, variance sign and monotonicity, shapes for N>=1, hyper-parameter report) are checked
separately, and the two train-and-freeze helpers are driven with 0 and >=1 initial samples."""
from __future__ import annotations

import numpy as np

from vmon.core import case_hash
from vmon.oracles import gp as GP

RULE = (
    "three model classes x input dim 1..3 x objectives 2..3 (equal and unequal) x scalar / full-matrix noise "
    "x random hyper-parameters (lengthscale 0.2..2, outputscale 0.3..3, non-zero mean constant for the model "
    "list) x random add/update/clear/predict sequences (length <= 30, batched adds, repeated inputs, extra "
    "trailing column, per-sample objective lists) x test sets N=1..7; factory helpers with 0,1,3 initial "
    "samples. One event per predict comparison / law. distinct = hash(class, data, test points); non-trivial "
    "= model holds >=1 sample at its last update."
)
ASSUMPTIONS = ["kernel, mean and noise are read from the model's gpytorch modules; data from the monitor's shadow",
               "agreement demanded to 1e-6 relative (prototype: <=1e-12 on correct code)",
               "training is replaced by a no-op in the quick tier for the factory helpers (hyper-parameters are whatever the modules hold)"]
N = {"quick": 64, "thorough": 9600}
REQUIRE = {"quick": {"predict_events": 600, "predict_N1": 60, "empty_prior_events": 15, "stale_predicts": 30,
                     "invariance_events": 60, "locality_events": 30, "monotone_events": 60, "hyper_events": 60,
                     "factory_events": 40, "factory_zero_initial": 10, "matrix_noise_models": 10,
                     "unequal_dims_models": 20}}
TIMEOUT = {"quick": 1200, "thorough": 5400}
TOL = 1e-6
KINDS = ("independent", "correlated", "modellist")


# ---------------------------------------------------------------------------------------
def make_model(kind, d, m, noise):
    from vopy.models import CorrelatedExactGPyTorchModel, GPyTorchModelListExactModel, IndependentExactGPyTorchModel

    cls = {"independent": IndependentExactGPyTorchModel, "correlated": CorrelatedExactGPyTorchModel,
           "modellist": GPyTorchModelListExactModel}[kind]
    return cls(d, m, noise)


def draw_hypers(rng, kind, d, m):
    h = {"ls": 10 ** rng.uniform(np.log10(0.2), np.log10(2), size=(m, d)),
         "os": 10 ** rng.uniform(np.log10(0.3), np.log10(3), size=m),
         "const": rng.normal(size=m) * 0.7,
         "F": rng.normal(size=(m, m)) * 0.8, "v": 10 ** rng.uniform(-1, 0.3, size=m)}
    return h


def apply_hypers(model, kind, h):
    import torch

    gp = model.model
    with torch.no_grad():
        if kind == "independent":
            gp.covar_module.base_kernel.lengthscale = torch.tensor(h["ls"][:, None, :])
            gp.covar_module.outputscale = torch.tensor(h["os"])
        elif kind == "correlated":
            gp.covar_module.data_covar_module.lengthscale = torch.tensor(h["ls"][:1])
            gp.covar_module.task_covar_module.covar_factor.data = torch.tensor(h["F"])
            gp.covar_module.task_covar_module.var = torch.tensor(h["v"])
        else:
            for k, sub in enumerate(gp.models):
                sub.covar_module.base_kernel.lengthscale = torch.tensor(h["ls"][k:k + 1])
                sub.covar_module.outputscale = torch.tensor(h["os"][k])
                sub.mean_module.constant = torch.tensor(h["const"][k])
    model.update()  # drops gpytorch's cached prediction strategy


class Shadow:
    """independent record of the data handed to the wrapper."""

    def __init__(self, kind, d, m):
        self.kind, self.d, self.m = kind, d, m
        self.clear()
        self.active = self._copy()

    def clear(self):
        if self.kind == "modellist":
            self.pending = [([], []) for _ in range(self.m)]
        else:
            self.pending = ([], [])

    def add(self, X, Y, dims=None):
        X = np.asarray(X, float)[:, : self.d]
        if self.kind == "modellist":
            dd = [dims] * len(X) if isinstance(dims, int) else list(dims)
            for x, y, k in zip(X, np.asarray(Y, float), dd):
                self.pending[int(k)][0].append(x.copy())
                self.pending[int(k)][1].append(float(y))
        else:
            for x, y in zip(X, np.asarray(Y, float)):
                self.pending[0].append(x.copy())
                self.pending[1].append(y.copy())

    def _copy(self):
        if self.kind == "modellist":
            return [(np.array(a).reshape(-1, self.d), np.array(b)) for a, b in self.pending]
        return (np.array(self.pending[0]).reshape(-1, self.d), np.array(self.pending[1]).reshape(-1, self.m))

    def freeze(self):
        self.active = self._copy()

    def n_pending(self):
        if self.kind == "modellist":
            return sum(len(a) for a, _ in self.pending)
        return len(self.pending[0])

    def n_active(self):
        if self.kind == "modellist":
            return sum(len(a) for a, _ in self.active)
        return len(self.active[0])


def oracle_predict(model, kind, shadow, Xte):
    Xte = np.asarray(Xte, float)[:, : shadow.d]
    if kind == "modellist":
        means, vars_, resid = GP.modellist_posterior(model, shadow.active, Xte)
        covs = np.zeros((len(Xte), shadow.m, shadow.m))
        for k in range(shadow.m):
            covs[:, k, k] = vars_[:, k]
        return means, covs, resid
    return GP.multioutput_posterior(model, shadow.active[0], shadow.active[1], Xte)


def compare_predict(mon, model, kind, shadow, Xte, label, ops_tail, extra_col=False):
    N = len(Xte)
    Xq = np.hstack([Xte, np.arange(N)[:, None].astype(float)]) if extra_col else Xte
    case = {"kind": kind, "d": shadow.d, "m": shadow.m, "N": N, "n_active": shadow.n_active(), "ops_tail": ops_tail[-10:], "Xte": Xte}
    try:
        means, covs = model.predict(Xq.copy())
    except Exception as e:
        mon.violation(f"gp:predict-crash:{type(e).__name__}:{kind}", f"{label}: {e!r}", case)
        return None
    means, covs = np.asarray(means), np.asarray(covs)
    mon.count("predict_events")
    if N == 1:
        mon.count("predict_N1")
    mon.event(case_hash(label, Xte, shadow.n_active(), len(ops_tail)), shadow.n_active() > 0, f"{kind}/d{shadow.d}m{shadow.m}/N{min(N, 3)}")
    m = shadow.m
    if means.shape != (N, m) or covs.shape != (N, m, m):
        mon.violation("gp:shape", f"{label}: predict shapes {means.shape}, {covs.shape} for N={N}, m={m}", case)
        return None
    if not (np.all(np.isfinite(means)) and np.all(np.isfinite(covs))):
        mon.violation("gp:non-finite", f"{label}", case)
        return None
    omeans, ocovs, resid = oracle_predict(model, kind, shadow, Xte)
    if resid > 1e-8:
        mon.count("oracle_ill_conditioned")
        return means, covs
    yscale = 1.0
    if shadow.n_active():
        ys = np.concatenate([np.ravel(b) for _, b in shadow.active]) if kind == "modellist" else np.ravel(shadow.active[1])
        yscale = 1.0 + float(np.abs(ys).max())
    vscale = float(np.abs(np.diagonal(ocovs, axis1=1, axis2=2)).max()) + 1e-12
    em = float(np.abs(means - omeans).max()) / yscale
    if kind == "correlated":
        ec = float(np.abs(covs - ocovs).max()) / vscale
    else:
        ec = float(np.abs(np.diagonal(covs, axis1=1, axis2=2) - np.diagonal(ocovs, axis1=1, axis2=2)).max()) / vscale
        off = covs.copy()
        for k in range(m):
            off[:, k, k] = 0
        if np.abs(off).max() != 0:
            mon.violation("gp:offdiag-nonzero", f"{label}: independent objectives report cross-covariance", case)
    mon.stat_max("max_mean_relerr", em)
    mon.stat_max("max_cov_relerr", ec)
    if em > TOL:
        mon.violation(f"gp:posterior-mean:{kind}", f"{label}: predict mean differs from the exact posterior of the held data by {em:.3e} (rel); "
                      f"n_active={shadow.n_active()}, n_pending={shadow.n_pending()}", case)
    if ec > TOL:
        mon.violation(f"gp:posterior-cov:{kind}", f"{label}: predict covariance differs from the exact posterior by {ec:.3e} (rel); n_active={shadow.n_active()}", case)
    if np.diagonal(covs, axis1=1, axis2=2).min() < -1e-10 * vscale:
        mon.violation("gp:negative-variance", f"{label}: {np.diagonal(covs, axis1=1, axis2=2).min()}", case)
    if shadow.n_active() == 0:
        mon.count("empty_prior_events")
    return means, covs


def random_noise(rng, kind, m):
    if kind != "modellist" and rng.random() < 0.35:
        A = rng.normal(size=(m, m)) * 0.3
        return A @ A.T + np.eye(m) * 10 ** rng.uniform(-2, -0.5), True
    return float(10 ** rng.uniform(-2.5, 0)), False


TENSOR_INPUTS = [0]


def add_random(rng, model, shadow, kind, d, m, pool, n=None):
    n = int(rng.integers(1, 5)) if n is None else n
    if rng.random() < 0.4 and len(pool):
        X = pool[rng.integers(len(pool), size=n)]  # repeated inputs
    else:
        X = rng.random((n, d))
    extra = rng.random() < 0.3
    Xin = np.hstack([X, rng.normal(size=(n, 1))]) if extra else X
    if kind == "modellist":
        if rng.random() < 0.5:
            k = int(rng.integers(m))
            y = rng.normal(size=n)
            hx, hy = Xin.copy(), y.copy()
            if rng.random() < 0.35:  # the caller works with torch tensors (accepted by to_tensor) and re-uses them
                import torch

                hx, hy = torch.tensor(hx, dtype=torch.float64), torch.tensor(hy, dtype=torch.float64)
                TENSOR_INPUTS[0] += 1
            model.add_sample(hx, hy, k)
            hx[...] = np.nan  # the caller re-uses its buffers
            hy[...] = np.nan
            shadow.add(X, y, k)
            return ("add", n, k)
        ks = [int(v) for v in rng.integers(m, size=n)]
        y = rng.normal(size=n)
        model.add_sample(Xin.copy(), y.copy(), ks)
        shadow.add(X, y, ks)
        return ("add", n, ks)
    Y = rng.normal(size=(n, m))
    hx, hy = Xin.copy(), Y.copy()
    if rng.random() < 0.35:  # seeded/W08: the first tensor batch of an empty model was kept by reference
        import torch

        hx, hy = torch.tensor(hx, dtype=torch.float64), torch.tensor(hy, dtype=torch.float64)
        TENSOR_INPUTS[0] += 1
    model.add_sample(hx, hy)
    hx[...] = np.nan  # the caller re-uses its buffers
    hy[...] = np.nan
    shadow.add(X, Y)
    return ("add", n)


def check_noise(mon, model, kind, noise, m, label):
    """the model's noise is the noise it was configured with"""
    want = np.eye(m) * noise if np.ndim(noise) == 0 else np.asarray(noise, float)
    if kind == "modellist":
        got = np.diag([float(sub.likelihood.noise.reshape(-1)[0]) for sub in model.model.models])
    else:
        got = GP.multioutput_noise(model)
    mon.count("noise_config_events")
    if np.abs(got - want).max() > 1e-7 * (1e-12 + np.abs(want).max()):
        mon.violation("gp:noise-not-configured", f"{label}: likelihood noise {got.tolist()} vs configured {np.asarray(noise).tolist()}", {"noise": noise})


def sequence(mon, rng, kind):
    d = int(rng.integers(1, 4))
    m = int(rng.integers(2, 4))
    noise, is_matrix = random_noise(rng, kind, m)
    label = f"{kind}/d{d}/m{m}/{'matrix' if is_matrix else 'scalar'}-noise"
    if is_matrix:
        mon.count("matrix_noise_models")
    if d != m:
        mon.count("unequal_dims_models")
    try:
        model = make_model(kind, d, m, noise)
    except Exception as e:
        mon.violation(f"gp:ctor-crash:{type(e).__name__}:{kind}", f"{label}: {e!r}", {"noise": noise})
        return
    shadow = Shadow(kind, d, m)
    pool = rng.random((6, d))
    ops = []
    n0 = int(rng.integers(1 if kind == "correlated" else 0, 6))
    try:
        if n0:
            ops.append(add_random(rng, model, shadow, kind, d, m, pool, n0))
        model.update()
        shadow.freeze()
        apply_hypers(model, kind, draw_hypers(rng, kind, d, m))
        check_noise(mon, model, kind, noise, m, label)
    except Exception as e:
        mon.violation(f"gp:setup-crash:{type(e).__name__}:{kind}", f"{label}: {e!r}", {"ops": ops})
        return
    for step in range(int(rng.integers(6, 30))):
        r = rng.random()
        try:
            if r < 0.4:
                ops.append(add_random(rng, model, shadow, kind, d, m, pool))
            elif r < 0.6:
                if kind == "correlated" and shadow.n_pending() == 0:
                    ops.append(add_random(rng, model, shadow, kind, d, m, pool))
                model.update()
                shadow.freeze()
                ops.append(("update",))
            elif r < 0.68:
                model.clear_data()
                shadow.clear()
                ops.append(("clear",))
            else:
                N = int(rng.choice([1, 1, 2, 3, 5, 7, 30, 30, 700 if rng.random() < 0.15 else 3]))
                Xte = rng.random((N, d)) if rng.random() < 0.8 else pool[rng.integers(len(pool), size=N)]
                if shadow.n_pending() != shadow.n_active():
                    mon.count("stale_predicts")
                ops.append(("predict", N))
                compare_predict(mon, model, kind, shadow, Xte, label, ops, extra_col=(kind != "modellist" and rng.random() < 0.3))
        except Exception as e:
            mon.violation(f"gp:op-crash:{type(e).__name__}:{kind}", f"{label}: {ops[-1] if ops else None} -> {e!r}", {"ops": ops[-10:]})
            return
    if len(mon.samples) < 3:
        mon.sample({"label": label, "ops": ops[:12], "n_active": shadow.n_active()})


def laws(mon, rng, kind):
    """order/batching invariance, variance monotonicity, locality (model list), hyper report."""
    d = int(rng.integers(1, 4))
    m = int(rng.integers(2, 4))
    noise, _ = random_noise(rng, kind, m)
    h = draw_hypers(rng, kind, d, m)
    n = int(rng.integers(2, 12))
    X = rng.random((n, d))
    X[-1] = X[0]
    Y = rng.normal(size=(n, m))
    Xte = rng.random((4, d))
    label = f"laws/{kind}/d{d}/m{m}"

    def build(order, batches):
        mod = make_model(kind, d, m, noise)
        first = True
        mod._vmon_early_report = None
        for chunk in np.array_split(order, batches):
            if len(chunk) == 0:
                continue
            if kind == "modellist":
                for k in rng.permutation(m):
                    mod.add_sample(X[chunk], Y[chunk, k], int(k))
            else:
                mod.add_sample(X[chunk], Y[chunk])
            if first:
                mod.update()
                try:
                    mod._vmon_early_report = mod.get_lengthscale_and_var()  # read once BEFORE the hyper-parameters change
                except Exception:
                    pass
                apply_hypers(mod, kind, h)
                first = False
        mod.update()
        return mod

    try:
        a = build(np.arange(n), 1)
        b = build(rng.permutation(n), int(rng.integers(1, n + 1)))
        ma, ca = a.predict(Xte)
        mb, cb = b.predict(Xte)
    except Exception as e:
        mon.violation(f"gp:laws-crash:{type(e).__name__}:{kind}", f"{label}: {e!r}", {})
        return
    mon.count("invariance_events")
    mon.event(case_hash("inv", kind, X, Y), True, f"invariance/{kind}")
    if np.shape(ma) != np.shape(mb) or np.abs(ma - mb).max() > 1e-7 * (1 + np.abs(Y).max()) or np.abs(ca - cb).max() > 1e-7 * (np.abs(ca).max() + 1e-12):
        mon.violation(f"gp:order-dependent:{kind}", f"{label}: predictions depend on the order / batching of added samples", {"n": n})
    # variance never grows with more data
    try:
        va = np.diagonal(np.asarray(ca), axis1=1, axis2=2).copy()
        Xn = rng.random((2, d))
        if kind == "modellist":
            k = int(rng.integers(m))
            a.add_sample(Xn, rng.normal(size=2), k)
        else:
            a.add_sample(Xn, rng.normal(size=(2, m)))
        a.update()
        m2, c2 = a.predict(Xte)
        v2 = np.diagonal(np.asarray(c2), axis1=1, axis2=2)
    except Exception as e:
        mon.violation(f"gp:laws-crash:{type(e).__name__}:{kind}", f"{label}: {e!r}", {})
        return
    mon.count("monotone_events")
    if (v2 > va + 1e-9 * (1 + va.max())).any():
        mon.violation(f"gp:variance-grew:{kind}", f"{label}: posterior variance increased after adding data", {})
    if kind == "modellist":
        mon.count("locality_events")
        others = [j for j in range(m) if j != k]
        if np.abs(np.asarray(m2)[:, others] - np.asarray(ma)[:, others]).max() > 1e-10 or np.abs(v2[:, others] - va[:, others]).max() > 1e-10:
            mon.violation("gp:modellist-not-local", f"{label}: an observation of objective {k} changed another objective", {})
        if np.abs(np.asarray(m2)[:, k] - np.asarray(ma)[:, k]).max() == 0:
            mon.violation("gp:modellist-observation-ignored", f"{label}: an observation of objective {k} changed nothing", {})
    # hyper-parameter report
    mon.count("hyper_events")
    try:
        ls, var = a.get_lengthscale_and_var()
    except Exception as e:
        mon.violation(f"gp:hyper-report-crash:{type(e).__name__}:{kind}", f"{label}: get_lengthscale_and_var raised {e!r}", {"d": d, "m": m})
        return
    ls, var = np.asarray(ls, float), np.asarray(var, float)
    case = {"d": d, "m": m, "ls": ls, "var": var}
    if var.shape != (m,):
        mon.violation(f"gp:hyper-report-shape:{kind}", f"{label}: {var.shape[0] if var.ndim else 0} variances reported for {m} objectives", case)
        return
    if kind == "correlated":
        if np.abs(var - h["v"]).max() > 1e-9 or np.abs(ls.reshape(-1) - h["ls"][0]).max() > 1e-9:
            mon.violation("gp:hyper-report-values:correlated", f"{label}: report {ls},{var} vs kernel {h['ls'][0]},{h['v']}", case)
    else:
        if ls.reshape(m, -1).shape != (m, d):
            mon.violation(f"gp:hyper-report-shape:{kind}", f"{label}: lengthscales shape {ls.shape} for m={m}, d={d}", case)
        elif np.abs(ls.reshape(m, d) - h["ls"]).max() > 1e-9 or np.abs(var - h["os"]).max() > 1e-9:
            mon.violation(f"gp:hyper-report-values:{kind}", f"{label}: report {ls},{var} vs kernel {h['ls']},{h['os']}", case)
        # agree with the kernel itself: k_t(x,x) = variance_t
        pm, pK = (None, None)
        if kind == "independent":
            _, K = GP.multioutput_blocks(a, Xte[:1])
            if np.abs(np.diag(K) - var).max() > 1e-9:
                mon.violation("gp:hyper-report-vs-kernel", f"{label}: k(x,x)={np.diag(K)} vs reported {var}", case)


def factory(mon, rng, kind, real_train):
    from vopy.models import (CorrelatedExactGPyTorchModel, GPyTorchModelListExactModel, IndependentExactGPyTorchModel,
                             get_gpytorch_model_w_known_hyperparams, get_gpytorch_modellist_w_known_hyperparams)

    d = int(rng.integers(1, 4))
    m = int(rng.integers(2, 4))
    n = int(rng.integers(6, 14))
    X = rng.random((n, d))
    A = rng.normal(size=(d, m))
    Y = np.sin(3 * X @ A) + 0.1 * rng.normal(size=(n, m))
    cnt = int(rng.choice([0, 0, 1, 3])) if kind != "correlated" else int(rng.choice([1, 3]))
    noise = float(10 ** rng.uniform(-2, -0.5))

    class Prob:
        in_dim, out_dim = d, m

        def evaluate(self, x, noisy=True):
            x = np.atleast_2d(x)
            return np.sin(3 * x @ A) + 0.05

    cls = {"independent": IndependentExactGPyTorchModel, "correlated": CorrelatedExactGPyTorchModel,
           "modellist": GPyTorchModelListExactModel}[kind]
    saved = cls.train
    if not real_train:
        cls.train = lambda self: None
    np.random.seed(int(rng.integers(2**31)))
    label = f"factory/{kind}/cnt{cnt}/{'trained' if real_train else 'untrained'}"
    try:
        if kind == "modellist":
            model = get_gpytorch_modellist_w_known_hyperparams(Prob(), noise, cnt, X=X, Y=Y)
        else:
            model = get_gpytorch_model_w_known_hyperparams(cls, Prob(), noise, cnt, X=X, Y=Y)
    except Exception as e:
        mon.violation(f"gp:factory-crash:{type(e).__name__}:{kind}", f"{label}: {e!r}", {"cnt": cnt})
        return
    finally:
        cls.train = saved
    mon.count("factory_events")
    if cnt == 0:
        mon.count("factory_zero_initial")
    # the data the model reports to hold
    shadow = Shadow(kind, d, m)
    if kind == "modellist":
        held = sum(len(t) for t in model.train_inputs)
        for k in range(m):
            xi = model.train_inputs[k].numpy()
            if len(xi):
                shadow.add(xi, model.train_targets[k].numpy(), k)
    else:
        held = len(model.train_inputs)
        if held:
            shadow.add(model.train_inputs.numpy(), model.train_targets.numpy())
    shadow.freeze()
    if held != cnt:
        mon.violation("gp:factory-sample-count", f"{label}: model reports {held} samples, {cnt} requested", {"cnt": cnt})
    Xte = rng.random((int(rng.choice([1, 3, 5])), d))
    compare_predict(mon, model, kind, shadow, Xte, label, [("factory", cnt)])
    # a second wrapper built from exactly the same arguments must be independent of the first
    saved = cls.train
    if not real_train:
        cls.train = lambda self: None
    try:
        if kind == "modellist":
            twin = get_gpytorch_modellist_w_known_hyperparams(Prob(), noise, cnt, X=X, Y=Y)
        else:
            twin = get_gpytorch_model_w_known_hyperparams(cls, Prob(), noise, cnt, X=X, Y=Y)
        Xn = rng.random((3, d))
        if kind == "modellist":
            twin.add_sample(Xn, rng.normal(size=3) * 3, 0)
        else:
            twin.add_sample(Xn, rng.normal(size=(3, m)) * 3)
        twin.update()
        mon.count("factory_twin_events")
        compare_predict(mon, model, kind, shadow, Xte, label + "/after-twin-update", [("factory", cnt), ("twin-update",)])
    except Exception as e:
        mon.violation(f"gp:factory-crash:{type(e).__name__}:{kind}", f"{label} (second wrapper): {e!r}", {"cnt": cnt})
    finally:
        cls.train = saved


def directed(mon):
    """regression corpus: D5 (variances sized by input dim), D4 (N=1 shapes)."""
    rng = np.random.default_rng(5)
    for d, m in ((1, 3), (3, 2)):
        mod = make_model("modellist", d, m, 0.1)
        for k in range(m):
            mod.add_sample(rng.random((4, d)), rng.normal(size=4), k)
        mod.update()
        mon.count("hyper_events")
        mon.event(case_hash("D5", d, m), True, "directed/D5")
        try:
            ls, var = mod.get_lengthscale_and_var()
            if np.shape(var) != (m,):
                mon.violation("gp:hyper-report-shape:modellist", f"d={d}, m={m}: {len(var)} variances reported for {m} objectives", {"d": d, "m": m})
        except Exception as e:
            mon.violation(f"gp:hyper-report-crash:{type(e).__name__}:modellist", f"d={d}, m={m}: {e!r}", {"d": d, "m": m})


def shard(mon, tier, rng, shard_no, nshards):
    if shard_no == 0:
        directed(mon)
    n = max(2, N[tier] // nshards)
    for it in range(n):
        for kind in KINDS:
            sequence(mon, rng, kind)
            laws(mon, rng, kind)
        kind = KINDS[(it + shard_no) % 3]
        factory(mon, rng, kind, real_train=False)
        factory(mon, rng, KINDS[(it + shard_no + 1) % 3], real_train=False)
    if tier == "thorough":
        for kind in KINDS:
            factory(mon, rng, kind, real_train=(kind == "correlated" or shard_no < 4))
    mon.count("tensor_inputs_poisoned", TENSOR_INPUTS[0])
    TENSOR_INPUTS[0] = 0
