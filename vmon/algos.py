"""Construct the real algorithm classes on synthetic datasets, optionally with a stub posterior model
in place of the trained GP (the factory helper is patched in the *algorithm module's* namespace for the
duration of the constructor only)."""
from __future__ import annotations

import contextlib
import importlib

import numpy as np

GP_ALGOS = {
    # name: (module, class, factory attr)
    "VOGP": ("vopy.algorithms.vogp", "VOGP", "get_gpytorch_model_w_known_hyperparams"),
    "EpsilonPAL": ("vopy.algorithms.epal", "EpsilonPAL", "get_gpytorch_model_w_known_hyperparams"),
    "PaVeBaGP": ("vopy.algorithms.paveba_gp", "PaVeBaGP", "get_gpytorch_model_w_known_hyperparams"),
    "PaVeBaPartialGP": ("vopy.algorithms.paveba_partial_gp", "PaVeBaPartialGP", "get_gpytorch_modellist_w_known_hyperparams"),
    "DecoupledGP": ("vopy.algorithms.decoupled", "DecoupledGP", "get_gpytorch_modellist_w_known_hyperparams"),
    "VOGP_AD": ("vopy.algorithms.vogp_ad", "VOGP_AD", "get_gpytorch_model_w_known_hyperparams"),
}
BANDIT_ALGOS = {
    "PaVeBa": ("vopy.algorithms.paveba", "PaVeBa"),
    "Auer": ("vopy.algorithms.auer", "Auer"),
    "NaiveElimination": ("vopy.algorithms.naive_elimination", "NaiveElimination"),
}


@contextlib.contextmanager
def stub_factory(algo, stub):
    """while active, the algorithm module's factory helper returns `stub` (callable -> model or model)."""
    if algo not in GP_ALGOS or stub is None:
        yield
        return
    modname, _, attr = GP_ALGOS[algo]
    mod = importlib.import_module(modname)
    orig = getattr(mod, attr)

    def fake(*a, **k):
        return stub(*a, **k) if callable(stub) else stub

    setattr(mod, attr, fake)
    try:
        yield
    finally:
        setattr(mod, attr, orig)


def get_class(algo):
    modname, clsname = (GP_ALGOS.get(algo) or BANDIT_ALGOS[algo])[:2]
    return getattr(importlib.import_module(modname), clsname)


def build(algo, *, dataset_name=None, order=None, epsilon=0.1, delta=0.1, noise_var=0.01, conf_contraction=1,
          stub=None, problem=None, **kw):
    cls = get_class(algo)
    with stub_factory(algo, stub):
        if algo == "EpsilonPAL":
            return cls(epsilon=epsilon, delta=delta, dataset_name=dataset_name, noise_var=noise_var,
                       conf_contraction=conf_contraction, **kw)
        if algo == "Auer":
            return cls(epsilon=epsilon, delta=delta, dataset_name=dataset_name, noise_var=noise_var,
                       conf_contraction=conf_contraction, **kw)
        if algo == "NaiveElimination":
            return cls(epsilon=epsilon, delta=delta, dataset_name=dataset_name, order=order, noise_var=noise_var, **kw)
        if algo == "DecoupledGP":
            return cls(dataset_name=dataset_name, order=order, noise_var=noise_var, **kw)
        if algo == "VOGP_AD":
            return cls(epsilon=epsilon, delta=delta, problem=problem, order=order, noise_var=noise_var,
                       conf_contraction=conf_contraction, **kw)
        return cls(epsilon=epsilon, delta=delta, dataset_name=dataset_name, order=order, noise_var=noise_var,
                   conf_contraction=conf_contraction, **kw)
