"""Stub posterior models and controlled observation sources for algorithm runs.

The stub keeps the hidden truth mu_i inside the region the algorithm is about to display, and pushes
the estimate up to `frac` (default 97 %) of the half-axis in a direction chosen per design.  The monitor
never trusts this intent: truth-in-region is re-checked from the displayed regions."""
from __future__ import annotations

import numpy as np


class StubGP:
    """Stands in for the three GP wrappers (joint and per-objective observations).

    displayed region under the scale in force = box / ellipsoid with half-axes h_i around mu_i + o_i.
    h_i = max(floor, w0_i * rho_s^{n_i} * rho_g^{version}) with n_i the samples the algorithm sent for i."""

    def __init__(self, X, mu, rng, shape="rect", mode="random", scale_hint=1.0, decoupled=False,
                 w0=None, rho_s=0.5, rho_g=0.9, frac=0.97, interior=None, pareto_mask=None):
        self.X = np.asarray(X, float)
        self.mu = np.asarray(mu, float)
        self.K, self.m = self.mu.shape
        self.input_dim, self.output_dim = self.X.shape[1], self.m
        self.rng = rng
        self.shape, self.mode = shape, mode
        self.decoupled = decoupled
        data_scale = float(np.abs(self.mu).max() + 1e-12) if scale_hint is None else scale_hint
        self.floor = 1e-6 * data_scale
        self.frac = frac
        self.rho_s, self.rho_g = rho_s, rho_g
        spread = data_scale
        if w0 is None:
            w0 = spread * 10 ** rng.uniform(-0.5, 0.5)
        self.w0 = np.full((self.K, self.m), float(w0))
        if mode in ("random", "adversarial", "stubborn"):
            self.w0 *= 10 ** rng.uniform(-0.5, 0.5, size=(self.K, self.m))
        self.stubborn = int(rng.integers(self.K)) if mode == "stubborn" else None
        self.stubborn_until = int(rng.integers(5, 25))
        self.needle_axis = rng.integers(self.m, size=self.K)
        self.n = np.zeros((self.K, self.m), int)  # samples per (design, objective)
        self.version = 0
        self.scale_for = {}  # design -> scale row in force (set by the design-space hook)
        self.last_scale = np.ones(self.m)
        self._cache = {}
        self.interior = interior
        self.pareto_mask = pareto_mask
        self.Q = [np.linalg.qr(rng.normal(size=(self.m, self.m)))[0] for _ in range(self.K)]
        self.dirsign = rng.choice([-1.0, 1.0], size=(self.K, self.m))
        self._index = {tuple(np.round(r, 12)): i for i, r in enumerate(self.X)}
        self.data = []  # (design, objective or None, y) as handed to add_sample
        self.model = None

    # -- geometry of the displayed region ------------------------------------------------
    def _half_axes(self, i):
        if self.mode == "identical":
            base = self.w0[0] * self.rho_g ** self.version * self.rho_s ** self.n.sum() ** 0.5
            return np.maximum(self.floor, base)
        h = self.w0[i] * self.rho_s ** self.n[i] * self.rho_g ** self.version
        if self.stubborn == i and self.version < self.stubborn_until:
            h = self.w0[i].copy()
        if self.mode == "needle":
            h = np.minimum(h, self.w0[i] * 1e-3 * self.rho_g ** self.version)
            k = self.needle_axis[i]
            h[k] = self.w0[i, k] * 3 * self.rho_s ** self.n[i, k] * self.rho_g ** self.version
        if self.mode == "lattice":
            q = self.floor * 1e5 / 8
            h = np.maximum(q, np.round(h / q) * q)
        h = np.maximum(self.floor, h)
        if self.mode == "flat" and self.shape == "rect":
            h = h.copy()
            h[self.needle_axis[0]] = 0.0  # zero width in one objective: a valid (degenerate) rectangle
        if self.shape == "ell":
            # axis ratio capped at 1e3 (covariance condition number 1e6): beyond that sqrtm(inv(Sigma)) in the real
            # predicates is numerically meaningless (same limit as the direct C09/C10 workloads)
            h = np.maximum(h, h.max() / 1e3)
        return h

    def _state(self, i):
        key = (i, self.version)
        if key not in self._cache:
            h = self._half_axes(i)
            rng = self.rng
            if self.mode in ("identical", "lattice"):
                f = np.zeros(self.m)
            elif self.mode == "needle":
                f = rng.uniform(-0.3, 0.3, size=self.m)
                f[self.needle_axis[i]] = -self.frac  # truth at one end of the long axis
            elif self.mode == "adversarial" and self.interior is not None:
                sgn = -1.0 if (self.pareto_mask is not None and self.pareto_mask[i]) else 1.0
                f = sgn * self.frac * np.sign(self.interior + 1e-12) * rng.uniform(0.6, 1.0, size=self.m)
            else:
                if rng.random() < 0.3:
                    self.dirsign[i] = rng.choice([-1.0, 1.0], size=self.m)
                f = self.dirsign[i] * self.frac * rng.uniform(0.0, 1.0, size=self.m)
            if self.shape == "ell":
                v = f / max(1.0, np.linalg.norm(f) / self.frac)
                off = self.Q[i] @ (h * v)
            else:
                off = f * h
            self._cache[key] = (h, off)
            for k in [k for k in self._cache if k[1] < self.version - 1]:
                del self._cache[k]
        return self._cache[key]

    def lookup(self, X):
        X = np.asarray(X, float)[:, : self.input_dim]
        return [self._index[tuple(np.round(r, 12))] for r in X]

    def predict(self, X):
        idx = self.lookup(X)
        means = np.zeros((len(idx), self.m))
        covs = np.zeros((len(idx), self.m, self.m))
        for r, i in enumerate(idx):
            h, off = self._state(i)
            s = np.asarray(self.scale_for.get(i, self.last_scale), float).reshape(-1)
            means[r] = self.mu[i] + off
            if self.shape == "ell":
                a = float(s[0])
                covs[r] = self.Q[i] @ np.diag((h / a) ** 2) @ self.Q[i].T
                covs[r] = (covs[r] + covs[r].T) / 2
            else:
                sv = s if s.size == self.m else np.full(self.m, s[0])
                covs[r] = np.diag((h / sv) ** 2)
        return means, covs

    # -- data interface -------------------------------------------------------------------
    def add_sample(self, X_t, Y_t, dim_index=None):
        idx = self.lookup(np.atleast_2d(X_t))
        Y_t = np.asarray(Y_t, float)
        if dim_index is None:
            for i, y in zip(idx, Y_t):
                self.n[i] += 1
                self.data.append((i, None, np.array(y, copy=True)))
        else:
            dims = [dim_index] * len(idx) if isinstance(dim_index, (int, np.integer)) else list(np.asarray(dim_index).reshape(-1))
            for i, y, k in zip(idx, Y_t.reshape(-1), dims):
                self.n[i, int(k)] += 1
                self.data.append((i, int(k), float(y)))

    def update(self):
        self.version += 1

    def train(self):
        pass

    def clear_data(self):
        self.data = []

    def get_kernel_type(self):
        return "RBF"

    def sample_from_single_posterior(self, X, dim_index, sample_count=1):
        means, covs = self.predict(X)
        sd = np.sqrt(covs[:, dim_index, dim_index])
        return means[:, dim_index][None, :] + self.rng.normal(size=(sample_count, len(sd))) * sd[None, :]


class FixedBoxStub(StubGP):
    """displayed boxes are prescribed exactly: centre_i, half_i (constant over rounds) — for directed witnesses."""

    def __init__(self, X, mu, rng, centres, halves, **kw):
        super().__init__(X, mu, rng, shape="rect", mode="random", **kw)
        self.centres = np.asarray(centres, float)
        self.halves = np.asarray(halves, float)

    def _state(self, i):
        if self.centres.ndim == 3:  # a schedule: [version][design][objective]; the last entry persists
            v = min(self.version, len(self.centres) - 1)
            return self.halves[v][i], self.centres[v][i] - self.mu[i]
        return self.halves[i], self.centres[i] - self.mu[i]


class ControlledProblem:
    """Observation source for the bandit algorithms: the running mean of each design follows
    mu_i + o_i(t) with |o_i(t)| <= frac * (radius the algorithm will display this round)."""

    def __init__(self, dataset, alg, rng, radius_fn, frac=0.97, mode="random", interior=None, pareto_mask=None):
        self.dataset = dataset
        self.alg = alg
        self.rng = rng
        self.radius_fn = radius_fn  # () -> half-width (scalar or (m,)) for the round in progress
        self.frac = frac
        self.mode = mode
        self.K, self.m = dataset.out_data.shape
        self.sums = np.zeros((self.K, self.m))
        self.cnt = np.zeros(self.K, int)
        self.dirs = rng.normal(size=(self.K, self.m))
        self.dirs /= np.linalg.norm(self.dirs, axis=1, keepdims=True)
        self.interior, self.pareto_mask = interior, pareto_mask
        self.noise_var = getattr(alg, "noise_var", 0.0)
        self.in_dim = dataset.in_data.shape[1]

    def evaluate(self, x, noisy=True):
        x = np.atleast_2d(np.asarray(x, float))
        d2 = ((x[:, None, :] - self.dataset.in_data[None, :, :]) ** 2).sum(-1)
        idx = d2.argmin(1)
        r = np.asarray(self.radius_fn(), float)
        out = np.zeros((len(idx), self.m))
        for row, i in enumerate(idx):
            if self.rng.random() < 0.2:
                v = self.rng.normal(size=self.m)
                self.dirs[i] = v / np.linalg.norm(v)
            if self.mode == "adversarial" and self.interior is not None:
                sgn = -1.0 if self.pareto_mask[i] else 1.0
                v = sgn * self.interior / np.linalg.norm(self.interior)
            else:
                v = self.dirs[i]
            if r.ndim == 0 or r.size == 1:
                target_off = v * float(r.reshape(-1)[0]) * self.frac * self.rng.uniform(0.3, 1.0)
            else:  # box half-widths per objective
                rr = r.reshape(-1, self.m)[0] if r.ndim > 1 else r
                target_off = np.sign(v) * rr * self.frac * self.rng.uniform(0.3, 1.0, size=self.m)
            t = self.cnt[i] + 1
            target_mean = self.dataset.out_data[i] + target_off
            y = target_mean * t - self.sums[i]
            self.sums[i] += y
            self.cnt[i] = t
            out[row] = y
        return out


class HeteroscedasticProblem:
    """real Gaussian noise with a per-design standard deviation (Auer with empirical widths)."""

    def __init__(self, dataset, sds, seed):
        self.dataset = dataset
        self.sds = np.asarray(sds, float)
        self.rs = np.random.RandomState(seed)
        self.in_dim = dataset.in_data.shape[1]

    def evaluate(self, x, noisy=True):
        x = np.atleast_2d(np.asarray(x, float))
        d2 = ((x[:, None, :] - self.dataset.in_data[None, :, :]) ** 2).sum(-1)
        idx = d2.argmin(1)
        f = self.dataset.out_data[idx]
        if not noisy:
            return f
        sd = self.sds[idx]
        if sd.ndim == 1:
            sd = sd[:, None]  # one level per design
        return f + self.rs.normal(size=f.shape) * sd  # (design, objective) levels


class ScriptedProblem:
    """Observations are derived so that the running mean of design i after its k-th sample equals centres[k-1][i]
    (the last entry persists).  For directed multi-round scenarios with the bandit algorithms."""

    def __init__(self, dataset, centres):
        self.dataset = dataset
        self.centres = np.asarray(centres, float)  # [round][design][objective]
        self.K, self.m = dataset.out_data.shape
        self.sums = np.zeros((self.K, self.m))
        self.cnt = np.zeros(self.K, int)
        self.in_dim = dataset.in_data.shape[1]

    def evaluate(self, x, noisy=True):
        x = np.atleast_2d(np.asarray(x, float))
        d2 = ((x[:, None, :] - self.dataset.in_data[None, :, :]) ** 2).sum(-1)
        idx = d2.argmin(1)
        out = np.zeros((len(idx), self.m))
        for row, i in enumerate(idx):
            k = self.cnt[i] + 1
            target = self.centres[min(k - 1, len(self.centres) - 1)][i]
            y = target * k - self.sums[i]
            self.sums[i] += y
            self.cnt[i] = k
            out[row] = y
        return out


class NumpyGP:
    """A small exact GP (independent objectives, RBF kernel, known hyper-parameters) standing in for the fitted model of
    VOGP_AD: lets the adaptive algorithm run in 1-D domains and to large depths without the gpytorch fit."""

    def __init__(self, in_dim, out_dim, noise_var, lengthscale=0.3, variance=1.0):
        self.input_dim, self.output_dim = in_dim, out_dim
        self.noise = float(noise_var)
        self.ls = np.full(out_dim, float(lengthscale))
        self.var = np.full(out_dim, float(variance))
        self.X = np.empty((0, in_dim))
        self.Y = np.empty((0, out_dim))
        self._cache = None

    def _k(self, A, B, t):
        d2 = ((A[:, None, :] - B[None, :, :]) ** 2).sum(-1)
        return self.var[t] * np.exp(-0.5 * d2 / self.ls[t] ** 2)

    def add_sample(self, X_t, Y_t):
        self.X = np.vstack([self.X, np.asarray(X_t, float)[:, : self.input_dim]])
        self.Y = np.vstack([self.Y, np.asarray(Y_t, float).reshape(-1, self.output_dim)])

    def update(self):
        self._cache = []
        for t in range(self.output_dim):
            K = self._k(self.X, self.X, t) + self.noise * np.eye(len(self.X))
            L = np.linalg.cholesky(K)
            Linv = np.linalg.inv(L)
            self._cache.append((Linv, Linv.T @ (Linv @ self.Y[:, t])))

    def train(self):
        pass

    def clear_data(self):
        self.X = np.empty((0, self.input_dim))
        self.Y = np.empty((0, self.output_dim))

    def predict(self, X):
        X = np.asarray(X, float)[:, : self.input_dim]
        means = np.zeros((len(X), self.output_dim))
        covs = np.zeros((len(X), self.output_dim, self.output_dim))
        for t in range(self.output_dim):
            if self._cache and len(self.X):
                Linv, a = self._cache[t]
                Ks = self._k(X, self.X, t)
                means[:, t] = Ks @ a
                v = Linv @ Ks.T
                covs[:, t, t] = np.maximum(self.var[t] - (v**2).sum(0), 1e-12)
            else:
                covs[:, t, t] = self.var[t]
        return means, covs

    def get_lengthscale_and_var(self):
        return self.ls.copy(), self.var.copy()

    def get_kernel_type(self):
        return "RBF"

    def evaluate_kernel(self, X=None):
        X = self.X if X is None else np.asarray(X, float)
        return self._k(X, X, 0)
