"""Algorithm-run engine: builds real algorithm objects on synthetic datasets (stub or real posterior
models), instruments them from the outside (recording problem proxy, design_space.update hook, phase
wrappers on the instance, acquisition / optimiser loggers) and returns a trace of every step."""
from __future__ import annotations

import copy
import traceback

import numpy as np

from vmon import algos, gen, patching, runstubs, stubs
from vmon.oracles import geometry as G

VARIANTS = {
    "PaVeBa": dict(algo="PaVeBa", kw={}, shape="ell", family="paveba", bandit=True, any_cone=True),
    "PaVeBaGP-IH": dict(algo="PaVeBaGP", kw={"type": "IH"}, shape="rect", family="paveba", any_cone=True, batch=True),
    "PaVeBaGP-DE": dict(algo="PaVeBaGP", kw={"type": "DE"}, shape="ell", family="paveba", any_cone=True, batch=True),
    "PartialGP-rect": dict(algo="PaVeBaPartialGP", kw={"confidence_type": "hyperrectangle"}, shape="rect", family="paveba",
                           any_cone=True, batch=True, decoupled=True),
    "PartialGP-ell": dict(algo="PaVeBaPartialGP", kw={"confidence_type": "hyperellipsoid"}, shape="ell", family="paveba",
                          any_cone=True, batch=True, decoupled=True),
    "VOGP": dict(algo="VOGP", kw={}, shape="rect", family="vogp", any_cone=True, batch=True),
    "EpsilonPAL": dict(algo="EpsilonPAL", kw={}, shape="rect", family="epal", any_cone=False, batch=True),
    "Auer": dict(algo="Auer", kw={}, shape="rect", family="auer", bandit=True, any_cone=False),
    "Auer-emp": dict(algo="Auer", kw={"use_empirical_beta": True}, shape="rect", family="auer", bandit=True, any_cone=False),
}
VARIANTS.update({
    "NaiveElimination": dict(algo="NaiveElimination", kw={}, shape=None, family="naive", bandit=True, any_cone=True),
    "DecoupledGP": dict(algo="DecoupledGP", kw={}, shape=None, family="decoupled", any_cone=True, batch=True, decoupled=True),
    "VOGP_AD": dict(algo="VOGP_AD", kw={}, shape="rect", family="vogp", any_cone=True),
})
PHASES = ["modeling", "discarding", "pareto_updating", "epsiloncovering", "useful_updating", "evaluating", "evaluate_refine"]

# ---------------------------------------------------------------------------------------
# global loggers (installed once per process)
# ---------------------------------------------------------------------------------------
ACQ_LOG: list = []
OPT_LOG: list = []
_installed = [False]


def install_global_loggers():
    if _installed[0]:
        return
    import vopy.acquisition.acquisition as A

    orig_call = A.AcquisitionStrategy.__call__

    def logged_call(self, *a, **k):
        v = orig_call(self, *a, **k)
        x = a[0] if a else k.get("x")
        ACQ_LOG.append({"acq": type(self).__name__, "x": np.array(x, float, copy=True),
                        "evaluation_index": getattr(self, "evaluation_index", None), "values": np.array(v, float, copy=True),
                        "costs": None if getattr(self, "costs", None) is None else np.array(self.costs, float)})
        return v

    A.AcquisitionStrategy.__call__ = logged_call

    o1 = A.optimize_acqf_discrete

    def opt1(acq, q, choices):
        start = len(ACQ_LOG)
        out = o1(acq, q, choices)
        OPT_LOG.append({"kind": "joint", "q": q, "choices": np.array(choices, float, copy=True), "acq_slice": (start, len(ACQ_LOG)),
                        "candidates": np.array(out[0], float, copy=True), "values": np.array(out[1], float, copy=True),
                        "nested": bool(getattr(acq, "_vmon_in_decoupled", False))})
        return out

    o2 = A.optimize_decoupled_acqf_discrete

    def opt2(acq, q, choices):
        start = len(ACQ_LOG)
        acq._vmon_in_decoupled = True
        try:
            out = o2(acq, q, choices)
        finally:
            acq._vmon_in_decoupled = False
        OPT_LOG.append({"kind": "decoupled", "q": q, "choices": np.array(choices, float, copy=True), "acq_slice": (start, len(ACQ_LOG)),
                        "candidates": np.array(out[0], float, copy=True), "values": np.array(out[1], float, copy=True),
                        "eval_indices": np.array(out[2]).copy(), "saved_eval_index_restored": True})
        return out

    patching.patch_everywhere("optimize_acqf_discrete", o1, opt1)
    patching.patch_everywhere("optimize_decoupled_acqf_discrete", o2, opt2)
    # the decoupled optimiser calls the joint one through its module global -> already patched above
    _installed[0] = True


# ---------------------------------------------------------------------------------------
# datasets
# ---------------------------------------------------------------------------------------
def make_dataset(rng, W, alpha, K, m, eps, family="random", scale=1.0):
    """true means with gaps placed relative to eps. returns mu (K,m)."""
    u = gen.interior_dir(W)
    if family == "lattice":
        q = scale / 4
        mu = rng.integers(-4, 5, size=(K, m)) * q
        return mu.astype(float)
    mu = rng.normal(size=(K, m)) * scale
    if family == "chain" and K >= 2:
        ratios = [0.5, 0.9, 0.99, 1.01, 1.1, 2.0]
        g0 = G.small_m(W, alpha, np.zeros(m), u)  # gap produced by a unit step along u
        for j in range(1, K):
            i = int(rng.integers(j))
            r = float(rng.choice(ratios))
            mu[j] = mu[i] + u * (r * eps / g0)
            if rng.random() < 0.3:  # an incomparable neighbour closer than eps
                v = rng.normal(size=m)
                v -= (v @ u) * u
                mu[j] = mu[i] + v / (np.linalg.norm(v) + 1e-12) * eps * rng.uniform(0.2, 0.8)
    elif family == "dup" and K >= 2:
        for _ in range(max(1, K // 3)):
            i, j = rng.integers(K, size=2)
            mu[j] = mu[i]
    elif family == "tight":
        mu = rng.normal(size=(K, m)) * eps * rng.uniform(0.5, 3)
    return mu


# ---------------------------------------------------------------------------------------
# case construction
# ---------------------------------------------------------------------------------------
def make_case(rng, variant, **over):
    info = VARIANTS[variant]
    m = int(over.get("m", rng.choice([2, 2, 2, 3])))
    if info["family"] in ("auer", "epal") or not info["any_cone"]:
        label, order = f"orthant{m}", gen.make_order("orthant", m=m)
    else:
        fams = over.get("cone_families")
        if fams is None:
            fams = ["orthant", "theta", "cone3d", "random"]
            if over.get("allow_Kgtm", info["shape"] == "ell" or info["family"] == "vogp"):
                fams += ["randomK", "icecream"]
        label, order = gen.random_order(rng, m, allow_Kgtm=True, families=fams)
    W = order.ordering_cone.W
    alpha, _, _ = G.cone_alpha(W)
    K = int(over.get("K", rng.integers(1, 9)))
    scale = float(over.get("scale", 10 ** rng.uniform(-1, 1)))
    eps = float(over.get("eps", scale * 10 ** (rng.uniform(-1.5, -0.3) if rng.random() < 0.95 else rng.uniform(0.3, 1.0))))  # rarely: eps above the data spread
    fam = str(over.get("ds_family", rng.choice(["random", "chain", "chain", "dup", "tight", "lattice"])))
    mu = over.get("mu")
    if mu is None:
        mu = make_dataset(rng, W, alpha, K, m, eps, fam, scale)
    mu = np.asarray(mu, float)
    K = len(mu)
    case = {
        "variant": variant, "cone": label, "W": W, "m": m, "K": K, "mu": mu, "X": stubs.grid_inputs(K, 2),
        "eps": eps, "delta": float(over.get("delta", rng.choice([0.05, 0.1, 0.3, 0.1, 0.05, 1e-6, 0.9, 0.999]))),  # incl. the ends of (0, 1)
        "noise_var": float(over.get("noise_var", 10 ** rng.uniform(-3, -1) * scale**2)),
        "contraction": float(over.get("contraction", rng.choice([1, 8, 32, 64]))),
        "batch": int(over.get("batch", 1 if not info.get("batch") else rng.choice([1, 1, 2, 3]))),
        "ds_family": fam, "scale": scale,
        "model": over.get("model", "stub"),
        "stub_mode": str(over.get("stub_mode", rng.choice(["random", "random", "adversarial", "identical", "lattice", "stubborn", "needle", "flat"]))),
        "obs_mode": str(over.get("obs_mode", rng.choice(["controlled", "controlled", "adversarial", "real"]))),
        "costs": over.get("costs"), "budget": over.get("budget"),
        "rho_s": float(over.get("rho_s", rng.choice([0.3, 0.5, 0.7]))), "rho_g": float(over.get("rho_g", rng.choice([0.8, 0.9, 0.97]))),
        "seed": int(rng.integers(2**31)), "max_rounds": int(over.get("max_rounds", 300)),
        "hetero": over.get("hetero"),
    }
    if case["stub_mode"] == "lattice" and fam != "lattice":
        case["stub_mode"] = "random"
    return case, order


def long_case(rng, variant, K=None, rounds=None):
    """a case built to LAST: close designs, small epsilon, slowly shrinking regions — 260-320 rounds of the same few designs, so
    that anything periodic in the round counter (a refresh every N rounds, a wrapping counter, an evicting cache) is passed"""
    K = int(rng.integers(3, 6)) if K is None else K
    mu = rng.normal(size=(K, 2)) * 0.05
    over = dict(K=K, m=2, mu=mu, eps=1e-3, scale=1.0, cone_families=["orthant", "theta"], batch=1, delta=0.1)
    if VARIANTS[variant].get("bandit"):
        over.update(noise_var=25.0, contraction=1.0, obs_mode="controlled")
    else:
        over.update(stub_mode="random", rho_g=0.997, rho_s=0.97, contraction=1.0, noise_var=0.01)
    case, order = make_case(rng, variant, **over)
    case["max_rounds"] = int(rng.integers(260, 330)) if rounds is None else rounds
    if rounds is not None and rounds > 330 and not VARIANTS[variant].get("bandit"):
        case["rho_g"], case["rho_s"] = 0.9995, 0.995  # shrink slowly enough to still be undecided after `rounds` rounds
    return case, order


def pareto_mask(W, mu):
    D = (mu[:, None, :] - mu[None, :, :]) @ W.T
    weak = (D >= 0).all(-1)
    same = (mu[:, None, :] == mu[None, :, :]).all(-1)
    return ~(weak & ~same).any(axis=0)


def build_algorithm(case, order):
    """returns (alg, stub_or_None, dataset_name)"""
    info = VARIANTS[case["variant"]]
    rng = np.random.default_rng(case["seed"])
    name = stubs.install_dataset(case["X"], case["mu"], exact=True)
    stub = None
    kw = dict(info["kw"])
    if info.get("batch"):
        kw["batch_size"] = case["batch"]
    if info.get("decoupled"):
        if case["costs"] is not None:
            kw["costs"] = list(case["costs"])
        if case["budget"] is not None:
            kw["cost_budget"] = case["budget"]
    pm = pareto_mask(case["W"], case["mu"])
    interior = gen.interior_dir(case["W"])
    try:
        if case["variant"] == "NaiveElimination":
            alg = algos.build("NaiveElimination", dataset_name=name, order=order, epsilon=case["eps"], delta=case["delta"],
                              noise_var=case["noise_var"], L=case.get("L", 5))
            stubs.remove_dataset(name)
            return alg, None
        if case["variant"] == "DecoupledGP" and case["model"] == "real-notrain":
            import vopy.models.gpytorch as MG

            saved = MG.GPyTorchModelListExactModel.train
            MG.GPyTorchModelListExactModel.train = lambda self: None
            try:
                alg = algos.build("DecoupledGP", dataset_name=name, order=order, noise_var=case["noise_var"],
                                  cost_budget=case["budget"], costs=list(case["costs"]), batch_size=case["batch"])
            finally:
                MG.GPyTorchModelListExactModel.train = saved
            stubs.remove_dataset(name)
            return alg, None
        if case["variant"] == "DecoupledGP":
            stub = runstubs.StubGP(case["X"], case["mu"], rng, shape="rect", mode="random", scale_hint=case["scale"], decoupled=True)
            alg = algos.build("DecoupledGP", dataset_name=name, order=order, noise_var=case["noise_var"], stub=stub,
                              cost_budget=case["budget"], costs=list(case["costs"]), batch_size=case["batch"])
            stubs.remove_dataset(name)
            return alg, stub
        if info.get("bandit"):
            alg = algos.build(info["algo"], dataset_name=name, order=order, epsilon=case["eps"], delta=case["delta"],
                              noise_var=case["noise_var"], conf_contraction=case["contraction"], **kw)
        elif case["model"] == "stub" and case.get("fixed_boxes") is not None:
            stub = runstubs.FixedBoxStub(case["X"], case["mu"], rng, case["fixed_boxes"][0], case["fixed_boxes"][1], scale_hint=case["scale"],
                                         decoupled=bool(info.get("decoupled")))
            alg = algos.build(info["algo"], dataset_name=name, order=order, epsilon=case["eps"], delta=case["delta"],
                              noise_var=case["noise_var"], conf_contraction=case["contraction"], stub=stub, **kw)
        elif case["model"] == "stub":
            stub = runstubs.StubGP(case["X"], case["mu"], rng, shape=info["shape"], mode=case["stub_mode"], scale_hint=case["scale"],
                                   decoupled=bool(info.get("decoupled")), rho_s=case["rho_s"], rho_g=case["rho_g"],
                                   interior=interior, pareto_mask=pm)
            alg = algos.build(info["algo"], dataset_name=name, order=order, epsilon=case["eps"], delta=case["delta"],
                              noise_var=case["noise_var"], conf_contraction=case["contraction"], stub=stub, **kw)
        elif case["model"] == "real-notrain":
            # the real GP wrapper classes with their default hyper-parameters: hyper-parameter fitting is skipped
            import vopy.models.gpytorch as MG

            saved = (MG.GPyTorchMultioutputExactModel.train, MG.GPyTorchModelListExactModel.train)
            MG.GPyTorchMultioutputExactModel.train = lambda self: None
            MG.GPyTorchModelListExactModel.train = lambda self: None
            try:
                alg = algos.build(info["algo"], dataset_name=name, order=order, epsilon=case["eps"], delta=case["delta"],
                                  noise_var=case["noise_var"], conf_contraction=case["contraction"], **kw)
            finally:
                MG.GPyTorchMultioutputExactModel.train, MG.GPyTorchModelListExactModel.train = saved
        else:
            alg = algos.build(info["algo"], dataset_name=name, order=order, epsilon=case["eps"], delta=case["delta"],
                              noise_var=case["noise_var"], conf_contraction=case["contraction"], **kw)
    finally:
        stubs.remove_dataset(name)
    # observation source for the bandit algorithms
    if info.get("bandit"):
        ds = alg.problem.dataset
        if case.get("script") is not None:
            alg.problem = runstubs.ScriptedProblem(ds, case["script"])
        elif case["variant"] == "Auer-emp" or case["obs_mode"] == "real":
            if case.get("hetero") is not None:
                alg.problem = runstubs.HeteroscedasticProblem(ds, case["hetero"], case["seed"])
        else:
            if info["family"] == "paveba":
                radius_fn = alg.compute_radius
            else:
                def radius_fn(alg=alg):
                    return np.asarray(alg.compute_beta())[0]
            alg.problem = runstubs.ControlledProblem(ds, alg, rng, radius_fn, mode=case["obs_mode"], interior=interior, pareto_mask=pm)
    return alg, stub


# ---------------------------------------------------------------------------------------
# tracing
# ---------------------------------------------------------------------------------------
def sets_of(alg):
    return (set(getattr(alg, "S", set())), set(alg.P) if isinstance(getattr(alg, "P", None), set) else None,
            set(alg.U) if hasattr(alg, "U") else None)


def model_data(model):
    """multiset of what the model holds, as sorted list of tuples."""
    if isinstance(model, runstubs.StubGP):
        return [(i, k, tuple(np.atleast_1d(y).tolist())) for i, k, y in model.data]
    if hasattr(model, "design_samples"):
        return [(i, None, tuple(r.tolist())) for i, rows in enumerate(model.design_samples) for r in rows]
    if hasattr(model, "train_inputs"):
        ti, tt = model.train_inputs, model.train_targets
        if isinstance(ti, list):
            return [(tuple(x.tolist()), k, (float(y),)) for k in range(len(ti)) for x, y in zip(ti[k].numpy(), tt[k].numpy())]
        return [(tuple(x.tolist()), None, tuple(y.tolist())) for x, y in zip(ti.numpy(), tt.numpy())]
    return []


class Tracer:
    def __init__(self, alg, case, stub, mon, watch_updates=False):
        self.alg, self.case, self.stub, self.mon = alg, case, stub, mon
        self.steps = []
        self.cur = None
        self.want_pred = VARIANTS.get(case["variant"], {}).get("algo") in ("PaVeBaGP", "PaVeBaPartialGP")
        self.rec = stubs.RecordingProblem(alg.problem, stamp=True)
        alg.problem = self.rec
        ds = alg.design_space if hasattr(alg, "design_space") else None
        self.update_log = []
        if ds is not None:
            if watch_updates:
                self.watch = patching.UpdateWatch(ds, mon, f"run/{case['variant']}")
            orig_update = ds.update

            def upd(model, scale, indices_to_update=None):
                idx = list(range(len(ds.points))) if indices_to_update is None else list(indices_to_update)
                sc = np.asarray(scale, float)
                if stub is not None:
                    stub.last_scale = np.atleast_1d(sc if sc.ndim < 2 else sc[0])
                    for k, i in enumerate(idx):
                        stub.scale_for[i] = np.atleast_1d(sc) if sc.ndim < 2 else sc[k]
                r = orig_update(model, scale, indices_to_update)
                self.update_log.append({"scale": sc.copy(), "indices": idx})
                if self.cur is not None:
                    self.cur["updated"] = sorted(set(self.cur.get("updated", [])) | set(idx))
                    self.cur["scale"] = sc.copy()
                return r

            ds.update = upd
        for ph in PHASES:
            if hasattr(alg, ph):
                self._wrap_phase(ph)
        if hasattr(alg, "compute_pessimistic_set"):
            orig = alg.compute_pessimistic_set

            def cps():
                out = orig()
                if self.cur is not None:
                    self.cur["pess"] = set(out)
                return out

            alg.compute_pessimistic_set = cps

    def regions_snapshot(self, idx):
        ds = self.alg.design_space
        return {int(i): patching.snapshot_region(ds.confidence_regions[i]) for i in idx}

    def _wrap_phase(self, name):
        alg = self.alg
        orig = getattr(alg, name)

        def wrapper(*a, **k):
            pre = sets_of(alg)
            entry = {"name": name, "pre": pre}
            if name in ("discarding",):
                active = set(pre[0]) | (pre[1] or set()) | (pre[2] or set())
                entry["regions"] = self.regions_snapshot(active)
                if hasattr(alg, "beta_t"):
                    entry["beta_t"] = np.array(alg.beta_t, float, copy=True)
                    entry["S_order"] = list(alg.S)
            if name in ("evaluating", "evaluate_refine"):
                entry["req_start"] = len(self.rec.log)
                entry["opt_start"] = len(OPT_LOG)
                entry["model_before"] = model_data(alg.model)
                active = set(pre[0]) | (pre[1] or set()) | (pre[2] or set())
                entry["regions"] = self.regions_snapshot(active) if hasattr(alg, "design_space") else {}
                if self.want_pred and hasattr(alg, "design_space") and active:
                    try:
                        idxs = sorted(active)
                        _, covs = alg.model.predict(alg.design_space.points[idxs])
                        entry["pred"] = {i: np.array(c, float, copy=True) for i, c in zip(idxs, covs)}
                    except Exception:
                        entry["pred"] = None
                if hasattr(alg, "design_space") and hasattr(alg.design_space, "point_depths"):
                    entry["depths_before"] = list(alg.design_space.point_depths)
                    entry["n_points_before"] = len(alg.design_space.points)
            out = orig(*a, **k)
            entry["post"] = sets_of(alg)
            if name in ("evaluating", "evaluate_refine"):
                entry["req_end"] = len(self.rec.log)
                entry["opt_end"] = len(OPT_LOG)
                entry["model_after"] = model_data(alg.model)
            if self.cur is not None:
                self.cur["phases"].append(entry)
            return out

        setattr(alg, name, wrapper)

    def step(self):
        from vmon import predicates as _P

        alg = self.alg
        _P.install_solver_logger()
        err0 = _P.NATURAL_SOLVER_ERRORS[0]
        self.cur = {"phases": [], "pre": sets_of(alg), "round_pre": alg.round, "count_pre": alg.sample_count,
                    "cost_pre": getattr(alg, "total_cost", None), "req_start": len(self.rec.log),
                    "npoints_pre": len(alg.design_space.points) if hasattr(alg, "design_space") else None}
        rec = self.cur
        try:
            rec["returned"] = alg.run_one_step()
            rec["crash"] = None
        except Exception as e:
            rec["returned"] = None
            rec["crash"] = e
            rec["crash_tb"] = traceback.format_exc()
        self.rec.poison_handed_out()
        rec["solver_errors"] = _P.NATURAL_SOLVER_ERRORS[0] - err0
        if rec["solver_errors"]:
            self.mon.count("natural_solver_errors", rec["solver_errors"])
        rec["post"] = sets_of(alg)
        rec["round_post"] = alg.round
        rec["count_post"] = alg.sample_count
        rec["cost_post"] = getattr(alg, "total_cost", None)
        rec["req_end"] = len(self.rec.log)
        if hasattr(alg, "design_space"):
            active = rec["post"][0] | (rec["post"][1] or set()) | (rec["post"][2] or set()) | rec["pre"][0] | (rec["pre"][1] or set())
            rec["regions_post"] = self.regions_snapshot([i for i in active if i < len(alg.design_space.confidence_regions)])
        self.steps.append(rec)
        self.cur = None
        return rec


def run_case(case, order, mon, max_extra_steps=3, watch_updates=False):
    """returns Tracer (with .steps, .terminated, .crashed, .cap_reached)"""
    install_global_loggers()
    np.random.seed(case["seed"] % (2**31))
    try:
        alg, stub = build_algorithm(case, order)
    except Exception as e:
        t = type("T", (), {})()
        t.steps, t.terminated, t.crashed, t.cap_reached, t.ctor_crash, t.alg, t.case = [], False, e, False, traceback.format_exc(), None, case
        return t
    tr = Tracer(alg, case, stub, mon, watch_updates=watch_updates)
    tr.ctor_crash = None
    tr.terminated = False
    tr.crashed = None
    tr.cap_reached = False
    if case["model"] == "real" and hasattr(alg, "design_space"):
        # a hyper-parameter fit that collapsed (zero output scale, negative predictive variance) is a property of the fit on
        # this tiny synthetic dataset, not of the run logic: such runs contribute nothing
        try:
            _, cov0 = alg.model.predict(alg.design_space.points)
            v0 = np.diagonal(np.asarray(cov0), axis1=1, axis2=2)
            if not np.all(np.isfinite(v0)) or v0.min() <= 0:
                mon.count("degenerate_gp_fit_runs")
                tr.steps = []
                tr.cap_reached = True
                return tr
        except Exception:
            pass
    for r in range(case["max_rounds"]):
        rec = tr.step()
        mon.stat_max("longest_run_rounds", r + 1)
        if r + 1 in (100, 200, 300, 400):
            mon.count(f"runs_reaching_{r + 1}_rounds")
        if rec["crash"] is not None:
            tr.crashed = rec["crash"]
            return tr
        if rec["returned"]:
            tr.terminated = True
            break
    else:
        tr.cap_reached = True
        return tr
    tr.n_active_steps = len(tr.steps)
    for _ in range(max_extra_steps):
        rec = tr.step()
        rec["after_completion"] = True
        if rec["crash"] is not None:
            tr.crashed = rec["crash"]
            break
    return tr


def case_public(case):
    """JSON-friendly summary for samples / replay."""
    keep = ["variant", "cone", "W", "m", "K", "mu", "eps", "delta", "noise_var", "contraction", "batch", "ds_family", "scale",
            "model", "stub_mode", "obs_mode", "costs", "budget", "rho_s", "rho_g", "seed", "max_rounds", "hetero", "in_dim", "depth_max", "n_train", "fixed_boxes", "L", "script"]
    return {k: case.get(k) for k in keep if k in case}


# ---------------------------------------------------------------------------------------
# VOGP_AD on user-defined continuous problems
# ---------------------------------------------------------------------------------------
def make_continuous_problem(rng, d, m, noise_var, depth_max):
    from vopy.maximization_problem import ContinuousProblem

    A = rng.normal(size=(d, m)) * 1.5
    B = rng.normal(size=(d, m))
    ph = rng.uniform(0, 3, size=m)

    class UserProblem(ContinuousProblem):
        bounds = [(0.0, 1.0)] * d
        in_dim = d
        out_dim = m

        def __init__(self, noise_var):
            self.depth_max = depth_max
            super().__init__(noise_var)

        def evaluate_true(self, x):
            x = np.atleast_2d(x)
            return np.sin(x @ A + ph) + 0.5 * (x @ B)

    return UserProblem(noise_var)


def make_ad_case(rng, **over):
    d = int(over.get("d", rng.choice([2, 2, 3])))
    m = int(over.get("m", 2))
    fams = over.get("cone_families", ["orthant", "theta", "random"] if m == 2 else ["orthant", "cone3d", "random"])
    label, order = gen.random_order(rng, m, allow_Kgtm=False, families=fams)
    case = {"variant": "VOGP_AD", "cone": label, "W": order.ordering_cone.W, "m": m, "in_dim": d, "K": None, "mu": None,
            "X": None, "eps": float(over.get("eps", rng.choice([0.3, 0.5, 0.8]))), "delta": 0.1,
            "noise_var": float(over.get("noise_var", 10 ** rng.uniform(-3, -2))), "contraction": float(over.get("contraction", rng.choice([8, 16, 32]))),
            "batch": 1, "depth_max": int(over.get("depth_max", rng.choice([2, 3, 3, 4]) if d < 3 else rng.choice([2, 3]))),
            "seed": int(rng.integers(2**31)), "max_rounds": int(over.get("max_rounds", 150)), "n_train": int(over.get("n_train", 64)),
            "ds_family": "continuous", "scale": 1.0, "model": "real", "stub_mode": None, "obs_mode": "real", "costs": None, "budget": None,
            "rho_s": None, "rho_g": None, "hetero": None}
    return case, order


def build_vogp_ad(case, order):
    import vopy.algorithms.vogp_ad as VA
    from vopy.utils import generate_sobol_samples

    rng = np.random.default_rng(case["seed"])
    problem = make_continuous_problem(rng, case["in_dim"], case["m"], case["noise_var"], case["depth_max"])
    real = VA.get_gpytorch_model_w_known_hyperparams

    def small(model_class, prob, noise_var, initial_sample_cnt, X=None, Y=None):
        X = generate_sobol_samples(prob.in_dim, case["n_train"])
        Y = prob.evaluate(X)
        return real(model_class, prob, noise_var, initial_sample_cnt, X=X, Y=Y)

    if case.get("model") == "numpy-gp":
        def small(model_class, prob, noise_var, initial_sample_cnt, X=None, Y=None):  # noqa: F811
            gp = runstubs.NumpyGP(prob.in_dim, prob.out_dim, noise_var, lengthscale=case.get("lengthscale", 0.3))
            x0 = np.full((1, prob.in_dim), 0.37)
            gp.add_sample(x0, prob.evaluate(x0))
            gp.update()
            return gp

    VA.get_gpytorch_model_w_known_hyperparams = small
    try:
        alg = VA.VOGP_AD(epsilon=case["eps"], delta=case["delta"], problem=problem, order=order, noise_var=case["noise_var"],
                         conf_contraction=case["contraction"])
    finally:
        VA.get_gpytorch_model_w_known_hyperparams = real
    return alg, problem


def run_ad_case(case, order, mon, per_step=None):
    install_global_loggers()
    np.random.seed(case["seed"] % (2**31))
    import torch

    torch.manual_seed(case["seed"] % (2**31))
    try:
        alg, problem = build_vogp_ad(case, order)
    except Exception as e:
        t = type("T", (), {})()
        t.steps, t.terminated, t.crashed, t.cap_reached, t.ctor_crash, t.alg, t.case = [], False, e, False, traceback.format_exc(), None, case
        return t
    tr = Tracer(alg, case, None, mon)
    tr.ctor_crash, tr.terminated, tr.crashed, tr.cap_reached = None, False, None, False
    # observe the epsilon-covering gate
    orig_cover = alg.epsiloncovering  # already wrapped by the tracer

    def cover():
        ds = alg.design_space
        tr.cur["gate_before"] = bool(alg.enable_epsilon_covering)
        tr.cur["all_S_at_max_depth"] = all(ds.point_depths[i] == alg.max_discretization_depth for i in alg.S)
        out = orig_cover()
        tr.cur["gate_open"] = bool(alg.enable_epsilon_covering)
        return out

    alg.epsiloncovering = cover
    for r in range(case["max_rounds"]):
        rec = tr.step()
        if per_step is not None:
            per_step(tr, rec)
        if rec["crash"] is not None:
            tr.crashed = rec["crash"]
            return tr
        if rec["returned"]:
            tr.terminated = True
            break
    else:
        tr.cap_reached = True
        return tr
    for _ in range(2):
        rec = tr.step()
        rec["after_completion"] = True
        if rec["crash"] is not None:
            tr.crashed = rec["crash"]
            break
    return tr


# ---------------------------------------------------------------------------------------
# replay support: rebuild a case from the JSON written with a violation
# ---------------------------------------------------------------------------------------
def case_from_public(d):
    case = dict(d)
    for k in ("W", "mu"):
        if case.get(k) is not None:
            case[k] = np.array(case[k], float)
    if case.get("variant") == "VOGP_AD":
        order = gen.make_order("W", W=case["W"])
        return case, order
    case["X"] = stubs.grid_inputs(len(case["mu"]), 2)
    case.setdefault("max_rounds", 150)
    case.setdefault("L", 5)
    fam = VARIANTS[case["variant"]]["family"]
    if fam in ("auer", "epal"):
        order = gen.make_order("orthant", m=case["m"])
    else:
        order = gen.make_order("W", W=case["W"])
    return case, order


def replay_runs(mon, rec, checker):
    """re-run the recorded case and apply `checker(mon, tr)`."""
    c = rec["case"]
    case, order = case_from_public({k: v for k, v in c.items() if k in (
        "variant", "cone", "W", "m", "K", "mu", "eps", "delta", "noise_var", "contraction", "batch", "ds_family", "scale", "model",
        "stub_mode", "obs_mode", "costs", "budget", "rho_s", "rho_g", "seed", "max_rounds", "hetero", "in_dim", "depth_max", "n_train",
        "fixed_boxes", "L", "script")})
    if case["variant"] == "VOGP_AD":
        tr = run_ad_case(case, order, mon)
    else:
        tr = run_case(case, order, mon)
    print(f"replayed {case['variant']} seed={case['seed']}: steps={len(tr.steps)} terminated={tr.terminated} crashed={tr.crashed!r}")
    checker(mon, tr)
    return tr


def run_pair(caseA, orderA, caseB, orderB, mon, max_steps=60):
    """two algorithm objects alive in the same process and stepped alternately (class-level or module-level state shared
    between instances would leak from one to the other).  Returns the two tracers."""
    install_global_loggers()
    trs = []
    for case, order in ((caseA, orderA), (caseB, orderB)):
        np.random.seed(case["seed"] % (2**31))
        alg, stub = build_algorithm(case, order)
        tr = Tracer(alg, case, stub, mon)
        tr.ctor_crash, tr.terminated, tr.crashed, tr.cap_reached = None, False, None, False
        trs.append(tr)
    done = [False, False]
    for r in range(max_steps):
        for k, tr in enumerate(trs):
            if done[k]:
                continue
            rec = tr.step()
            if rec["crash"] is not None:
                tr.crashed = rec["crash"]
                done[k] = True
            elif rec["returned"]:
                tr.terminated = True
                done[k] = True
        if all(done):
            break
    for k, tr in enumerate(trs):
        if not done[k]:
            tr.cap_reached = True
        elif tr.terminated:
            for _ in range(2):
                rec = tr.step()
                rec["after_completion"] = True
    return trs
