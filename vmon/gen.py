"""Shared generators: cones, region pairs aimed at decision boundaries, value sets."""
from __future__ import annotations

import numpy as np

from vmon.oracles import geometry as G


# ---------------------------------------------------------------------------------------
# cones — returned as (label, real vopy order object)
# ---------------------------------------------------------------------------------------
_CONE_CACHE: dict = {}


def make_order(kind: str, **kw):
    """Build a real vopy order. Cached (OrderingCone construction solves K SOCPs)."""
    from vopy.order import (
        ComponentwiseOrder,
        ConeOrder3D,
        ConeOrder3DIceCream,
        ConeTheta2DOrder,
        PolyhedralConeOrder,
    )
    from vopy.ordering_cone import OrderingCone

    key = (kind, tuple(sorted((k, (v.tobytes() if isinstance(v, np.ndarray) else v)) for k, v in kw.items())))
    if key in _CONE_CACHE:
        return _CONE_CACHE[key]
    if kind == "orthant":
        o = ComponentwiseOrder(kw["m"])
    elif kind == "theta":
        o = ConeTheta2DOrder(kw["theta"])
    elif kind == "cone3d":
        o = ConeOrder3D(kw["type"])
    elif kind == "icecream":
        o = ConeOrder3DIceCream(kw["theta"], kw["K"])
    elif kind == "W":
        o = PolyhedralConeOrder(OrderingCone(np.array(kw["W"], float)))
    else:
        raise ValueError(kind)
    _CONE_CACHE[key] = o
    return o


THETAS = [10, 20, 30, 45, 60, 75, 89, 90, 91, 105, 120, 135, 150, 165]


def random_order(rng, m=None, allow_Kgtm=True, families=None, rowscale_p=0.0):
    """returns (label, order). m in {2,3,4}.  rowscale_p: probability of describing the drawn cone by facet rows that are
    not unit normals (each row times a positive factor) — the same cone, a different representation."""
    label, order = _random_order(rng, m, allow_Kgtm, families)
    if rowscale_p and rng.random() < rowscale_p:
        W0 = np.asarray(order.ordering_cone.W, float)
        f = rng.choice([0.25, 0.5, 2.0, 3.0, 5.0, 8.0], size=(len(W0), 1)) if rng.random() < 0.6 else float(rng.choice([0.2, 4.0, 10.0]))
        return label + "-rowscaled", make_order("W", W=W0 * f)
    return label, order


def _random_order(rng, m=None, allow_Kgtm=True, families=None):
    if m is None:
        m = int(rng.choice([2, 2, 2, 3, 3, 4]))
    fams = families or ["orthant", "theta", "cone3d", "icecream", "random", "randomK"]
    for _ in range(50):
        f = str(rng.choice(fams))
        if f == "orthant":
            if rng.random() < 0.3:
                # an axis-aligned cone that is not the positive orthant: some objectives are minimised (negative rows) and the
                # facet rows come in another order — seeded/U02 (closed-form paths for "one non-zero entry per row")
                W = np.diag(rng.choice([-1.0, 1.0], size=m))[rng.permutation(m)]
                if (W.sum(axis=0) > 0).all() and rng.random() < 0.7:
                    W[0] = -W[0]
                return f"signed-orthant{m}", make_order("W", W=W)
            return f"orthant{m}", make_order("orthant", m=m)
        if f == "theta" and m == 2:
            th = float(rng.choice(THETAS))
            return f"theta{th:g}", make_order("theta", theta=th)
        if f == "cone3d" and m == 3:
            t = str(rng.choice(["acute", "right", "obtuse"]))
            return f"cone3d-{t}", make_order("cone3d", type=t)
        if f == "icecream" and m == 3 and allow_Kgtm:
            K = int(rng.choice([3, 4, 6, 8]))
            th = float(rng.choice([20, 30, 45, 60]))
            if K == 3 or allow_Kgtm:
                return f"icecream{th:g}-K{K}", make_order("icecream", theta=th, K=K)
        if f == "random":
            W = np.round(G.random_cone(rng, m, m), 6)
            W = W / np.linalg.norm(W, axis=1, keepdims=True)
            return f"random{m}x{m}", make_order("W", W=W)
        if f == "randomK" and allow_Kgtm:
            K = m + int(rng.integers(1, 4))
            W = G.random_cone(rng, m, K)
            if rng.random() < 0.2:  # a redundant facet: a positive combination of two others (same cone, one more row)
                W[-1] = W[0] * rng.uniform(0.2, 1) + W[1] * rng.uniform(0.2, 1)
                W[-1] /= np.linalg.norm(W[-1])
                return f"random{K}x{m}-redundant", make_order("W", W=W)
            return f"random{K}x{m}", make_order("W", W=W)
    return f"orthant{m}", make_order("orthant", m=m)


def interior_dir(W):
    """a unit direction strictly inside the cone (W d > 0): normalised LDP point."""
    u, d1, _, _ = G.cone_ustar(W)
    return u


# ---------------------------------------------------------------------------------------
# region pairs
# ---------------------------------------------------------------------------------------
def rand_scale(rng):
    return float(10 ** rng.uniform(-4, 2))


def rand_spd(rng, m, scale, aniso):
    """random SPD matrix with eigenvalues in [scale^2/aniso^2, scale^2]"""
    Q, _ = np.linalg.qr(rng.normal(size=(m, m)))
    ev = (scale * 10 ** (-rng.uniform(0, np.log10(aniso), size=m))) ** 2
    ev[0] = scale**2
    S = Q @ np.diag(ev) @ Q.T
    return (S + S.T) / 2


def rect_pair(rng, m, mode=None):
    """returns lo1, hi1, lo2, hi2, mode, scale"""
    scale = rand_scale(rng)
    mode = mode or str(
        rng.choice(["disjoint", "overlap", "nested", "touching", "identical", "degenerate", "needle"])
    )
    aniso = float(10 ** rng.uniform(0, 3))
    c1 = rng.normal(size=m) * scale * rng.choice([0.0, 1.0, 10.0, 100.0])  # incl. regions far from the origin relative to their size
    h1 = scale * 10 ** (-rng.uniform(0, np.log10(aniso), size=m))
    h2 = scale * 10 ** (-rng.uniform(0, np.log10(aniso), size=m))
    if mode == "disjoint":
        c2 = c1 + rng.normal(size=m) * scale * 4
    elif mode == "overlap":
        c2 = c1 + rng.uniform(-1, 1, size=m) * (h1 + h2) * 0.8
    elif mode == "nested":
        h2 = h1 * rng.uniform(0.05, 0.9, size=m)
        c2 = c1 + rng.uniform(-1, 1, size=m) * (h1 - h2)
    elif mode == "touching":
        c2 = c1 + rng.uniform(-1, 1, size=m) * (h1 + h2)
        k = int(rng.integers(m))
        c2[k] = c1[k] + (h1[k] + h2[k]) * rng.choice([-1, 1])
    elif mode == "identical":
        c2, h2 = c1.copy(), h1.copy()
    elif mode == "degenerate":
        k = int(rng.integers(m))
        h1[k] = 0.0
        if rng.random() < 0.5:
            h2[int(rng.integers(m))] = 0.0
        c2 = c1 + rng.normal(size=m) * scale
    else:  # needle
        k = int(rng.integers(m))
        h1[:] = scale * 1e-4
        h1[k] = scale * 3
        c2 = c1 + rng.normal(size=m) * scale
    lo1, hi1, lo2, hi2 = c1 - h1, c1 + h1, c2 - h2, c2 + h2
    if rng.random() < 0.1:
        # objectives in different units (not standardised): one factor per coordinate, 1e-3 ... 1e6
        f = 10.0 ** rng.integers(-3, 7, size=m)
        lo1, hi1, lo2, hi2 = lo1 * f, hi1 * f, lo2 * f, hi2 * f
        mode = mode + "+mixed-units"
    return lo1, hi1, lo2, hi2, mode, scale


def ell_pair(rng, m, mode=None):
    scale = rand_scale(rng)
    mode = mode or str(rng.choice(["disjoint", "overlap", "nested", "identical", "aniso"]))
    aniso = float(10 ** rng.uniform(0, 2)) if mode != "aniso" else float(10 ** rng.uniform(2, 4))
    # sigma is a covariance (scale^2); alpha multiplies the std → keep sigma ~ (scale/alpha)^2
    a1 = float(10 ** rng.uniform(-1, 1.5))
    a2 = a1 if rng.random() < 0.7 else float(10 ** rng.uniform(-1, 1.5))
    S1 = rand_spd(rng, m, scale / a1, aniso)
    S2 = rand_spd(rng, m, scale / a2 * float(10 ** rng.uniform(-1, 0)), aniso)
    c1 = rng.normal(size=m) * scale * rng.choice([0.0, 1.0, 10.0, 100.0])
    if mode == "disjoint":
        c2 = c1 + rng.normal(size=m) * scale * 4
    elif mode in ("overlap", "aniso"):
        c2 = c1 + rng.normal(size=m) * scale
    elif mode == "nested":
        S2 = S1 * rng.uniform(0.01, 0.5)
        a2 = a1
        c2 = c1 + rng.normal(size=m) * scale * 0.1
    else:
        c2, S2, a2 = c1.copy(), S1.copy(), a1
    return c1, S1, a1, c2, S2, a2, mode, scale


GAMMAS = [1e-1, 1e-2, 1e-3]


def aim(margin_fn, shift_fn, d_rate, target, iters=8):
    """Translate region 2 by tau*d so that margin_fn(tau) ~ target.  margin is concave
    piecewise-smooth and increasing in tau with slope in [min rate, max rate]."""
    tau = 0.0
    rate = float(np.mean(d_rate))
    for _ in range(iters):
        mcur = margin_fn(tau)
        if not np.isfinite(mcur):
            break
        err = target - mcur
        if abs(err) <= 1e-3 * abs(target):
            break
        tau += err / rate
    return tau


def exotic(arr, rng):
    """the same values in an unusual memory layout: Fortran order, a non-contiguous view, or read-only.  The library's
    answers must not depend on the layout, and a read-only input exposes any attempt to write into the caller's array."""
    a = np.array(arr, copy=True)
    r = rng.random()
    if r < 0.3:
        a = np.asfortranarray(a)
    elif r < 0.6 and a.ndim == 2:
        wide = np.zeros((a.shape[0], a.shape[1] * 2), a.dtype)
        wide[:, ::2] = a
        a = wide[:, ::2]  # non-contiguous view
    elif r < 0.8 and a.ndim >= 1:
        a = a[::-1][::-1]
    a = a.view()
    a.setflags(write=False)
    return a
