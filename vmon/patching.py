"""Attach monitors to the real code from the harness (no source hooks).

* patch_everywhere: replace a function in its defining module and in every vopy.* module that
  imported it by name.
* region invariants via icontract (class invariant on RectangularConfidenceRegion).
* UpdateWatch: invariant-at-a-hook for design_space.update (C14), reusable inside algorithm runs.
"""
from __future__ import annotations

import sys
from pathlib import Path

import numpy as np

ROOT = Path(__file__).resolve().parent.parent


def patch_everywhere(name: str, orig, wrapper):
    """replace every module-level binding `name` that *is* orig inside vopy.*; returns count."""
    n = 0
    for modname, mod in list(sys.modules.items()):
        if mod is None or not (modname == "vopy" or modname.startswith("vopy.")):
            continue
        if getattr(mod, name, None) is orig:
            setattr(mod, name, wrapper)
            n += 1
    return n


# ---------------------------------------------------------------------------------------
# icontract class invariant
# ---------------------------------------------------------------------------------------
class RegionInvariantBroken(AssertionError):
    pass


INV_EVALS = [0]
_inv_installed = [False]


def rect_region_ok(self) -> bool:
    INV_EVALS[0] += 1
    lo, hi = np.asarray(self.lower, float), np.asarray(self.upper, float)
    return bool(lo.shape == hi.shape and np.all(np.isfinite(lo)) and np.all(np.isfinite(hi)) and np.all(lo <= hi))


def install_region_invariant() -> bool:
    """returns True if icontract is available and the invariant is installed."""
    if _inv_installed[0]:
        return True
    deps = str(ROOT / ".deps")
    if deps not in sys.path:
        sys.path.append(deps)  # appended: never shadows the repo interpreter's own packages
    try:
        import icontract
    except Exception:
        return False
    from vopy.confidence_region import RectangularConfidenceRegion

    icontract.invariant(rect_region_ok, error=lambda self: RegionInvariantBroken(
        f"lower<=upper/finite broken: lower={self.lower} upper={self.upper}"))(RectangularConfidenceRegion)
    _inv_installed[0] = True
    return True


# ---------------------------------------------------------------------------------------
# design_space.update hook
# ---------------------------------------------------------------------------------------
def snapshot_region(r):
    if hasattr(r, "lower"):
        return ("rect", np.array(r.lower, float, copy=True), np.array(r.upper, float, copy=True))
    return ("ell", np.array(r.center, float, copy=True), np.array(r.sigma, float, copy=True), float(np.asarray(r.alpha).reshape(-1)[0]))


def regions_equal(a, b):
    if a[0] != b[0]:
        return False
    return all(np.array_equal(x, y) for x, y in zip(a[1:], b[1:]))


class UpdateWatch:
    """wraps ds.update; after each call compares every region with the model's prediction on the
    FULL design matrix (so any mis-alignment between indices and predictions shows)."""

    def __init__(self, ds, mon, label, on_violation=None, predict_all=True):
        self.ds, self.mon, self.label = ds, mon, label
        self.orig = ds.update
        self.predict_all = predict_all
        self.log = []  # (scale, indices) per call
        ds.update = self._update

    def _update(self, model, scale, indices_to_update=None):
        ds, mon = self.ds, self.mon
        n = len(ds.points)
        before = [snapshot_region(r) for r in ds.confidence_regions]
        idx = list(range(n)) if indices_to_update is None else list(indices_to_update)
        scale_in = np.array(scale, copy=True)
        self.orig(model, scale, indices_to_update)
        self.log.append((scale_in, list(idx)))
        mon.count("update_calls")
        try:
            mus, covs = model.predict(ds.points)  # all points
        except Exception as e:  # a model that cannot predict N points at once: fall back
            mon.count("predict_all_failed")
            return
        mus, covs = np.asarray(mus, float), np.asarray(covs, float)
        if mus.shape[0] != n:
            mon.count("predict_all_bad_shape")
            return
        m = mus.shape[1]
        # the reference prediction is made on ALL designs, the library's on the updated subset: a gpytorch model answers the two
        # batch compositions with values that differ in the 8th digit (observed 1e-8 relative, thorough seed 1), a stub exactly
        rt = 1e-6 if type(model).__module__.startswith("vopy.models.gpytorch") else 1e-9
        sc = np.asarray(scale_in, float)
        occ: dict[int, list] = {}
        for k, i in enumerate(idx):
            occ.setdefault(i, []).append(np.atleast_1d(sc) if sc.ndim < 2 else sc[k])
        for i in range(n):
            after = snapshot_region(ds.confidence_regions[i])
            case = {"label": self.label, "design": i, "indices": idx, "scale": sc, "n_points": n}
            if i not in occ:
                mon.count("untouched_checked")
                if not regions_equal(before[i], after):
                    mon.violation("update:untouched-region-changed", f"{self.label}: design {i} not in {idx} but its region changed", case)
                continue
            mon.count("updated_checked")
            if len(idx) == 1:
                mon.count("single_design_updates")
            if after[0] == "rect":
                std = np.sqrt(np.diag(covs[i]))
                intersect = bool(getattr(ds.confidence_regions[i], "intersect_iteratively", False))
                if not (np.all(np.isfinite(after[1])) and np.all(np.isfinite(after[2]))):
                    mon.violation("update:non-finite-region", f"{self.label}: design {i}: {after[1]} {after[2]}", case)
                    continue
                if (after[1] > after[2]).any():
                    mon.violation("update:lower-above-upper", f"{self.label}: design {i}: {after[1]} {after[2]}", case)
                # fold the occurrences of design i sequentially, as the update loop does
                cur = (before[i][1], before[i][2])
                ambiguous = False
                kind = None
                for s_k in occ[i]:
                    L, U = mus[i] - std * s_k, mus[i] + std * s_k
                    tol = rt * (1 + np.abs(mus[i]).max() + np.abs(std * s_k).max())
                    if not intersect:
                        cur, kind = (L, U), "replace"
                        continue
                    oL, oU = cur
                    overlap = ((oL < U - tol) & (L < oU - tol)).all()
                    disjoint = ((oL > U + tol) | (L > oU + tol)).any()
                    if overlap:
                        cur, kind = (np.maximum(oL, L), np.minimum(oU, U)), "intersection"
                    elif disjoint:
                        cur, kind = (L, U), "disjoint"
                    else:
                        ambiguous = True  # touching boxes: either outcome is accepted
                        break
                if intersect:
                    mon.count("intersect_checked")
                if ambiguous:
                    mon.count("touching_ambiguous")
                    continue
                if np.abs(after[1] - cur[0]).max() > tol or np.abs(after[2] - cur[1]).max() > tol:
                    mech = {"replace": "update:rect-not-prediction-scaled", "intersection": "update:intersection-wrong",
                            "disjoint": "update:disjoint-not-replaced"}[kind]
                    mon.violation(mech, f"{self.label}: design {i}: region [{after[1]},{after[2]}], expected [{cur[0]},{cur[1]}] "
                                  f"(mean {mus[i]}, std {std}, scales {occ[i]}, before [{before[i][1]},{before[i][2]}])", case)
            else:
                s_last = occ[i][-1]
                tol = rt * (1 + np.abs(mus[i]).max())
                if np.shape(after[1]) != np.shape(mus[i]) or np.abs(after[1] - mus[i]).max() > tol \
                        or np.abs(after[2] - covs[i]).max() > rt * (1e-300 + np.abs(covs[i]).max()) \
                        or abs(after[3] - float(np.asarray(s_last).reshape(-1)[0])) > 1e-12 * (1 + abs(after[3])):
                    mon.violation("update:ellipsoid-not-prediction", f"{self.label}: design {i}: centre {after[1]} vs mean {mus[i]}; alpha {after[3]} vs scale {s_last}", case)
