"""Runner, shard orchestration, verdict discipline, evidence and replay writing.

Every check is `./check <ID> --tier quick|thorough`:
  main process  -> N shard subprocesses (fresh interpreters, real code from VOPY_SRC)
  each shard    -> runs vmon.props.<id>.shard(mon, tier, rng, shard, nshards), dumps JSON
  main process  -> merges counters, classifies violations against known_findings.json,
                   writes evidence/<ID>.json, prints VIOLATION / KNOWN-FINDING / INCONCLUSIVE.

Exit codes: 0 held on everything observed, 1 VIOLATION (unlisted), 2 INCONCLUSIVE.
"""
from __future__ import annotations

import hashlib
import importlib
import json
import os
import subprocess
import sys
import time
import traceback
from collections import Counter
from pathlib import Path

import numpy as np

ROOT = Path(__file__).resolve().parent.parent
PY = "/venv/bin/python"
NPROC = int(os.environ.get("VERIF_NPROC", "16"))

# ---- tolerance bands (DESIGN.md section 2.4) -------------------------------------------
# LP / vertex predicates: a decision is demanded only if |margin| > TAU_LP * (1 + magnitude).
TAU_LP = 1e-6
# SOCP (ellipsoid) predicates: default solver mis-decides only below 1.5e-6 relative margin
# (probe, phase 1); the band is ~70x that.
TAU_SOCP_ABS = 2e-6
TAU_SOCP_REL = 1e-4
# Decisions taken on the SCS fallback (after a *natural* cvxpy SolverError of the default solver): SCS works to an
# absolute tolerance of ~1e-4 in objective units; inside this band such a decision is "within numerical tolerance".
TAU_SCS_ABS = 3e-4
TAU_SCS_REL = 1e-3


def vopy_src() -> str:
    return os.environ.get("VOPY_SRC", "/repo")


def jsonable(o):
    if isinstance(o, dict):
        return {str(k): jsonable(v) for k, v in o.items()}
    if isinstance(o, (list, tuple)):
        return [jsonable(v) for v in o]
    if isinstance(o, (set, frozenset)):
        return sorted(jsonable(v) for v in o)
    if isinstance(o, np.ndarray):
        return jsonable(o.tolist())
    if isinstance(o, (np.integer,)):
        return int(o)
    if isinstance(o, (np.floating,)):
        return jsonable(float(o))
    if isinstance(o, (np.bool_,)):
        return bool(o)
    if isinstance(o, float):
        if o != o:
            return "nan"
        if o in (float("inf"), float("-inf")):
            return "inf" if o > 0 else "-inf"
        return o
    if isinstance(o, (int, str, bool)) or o is None:
        return o
    return repr(o)


def case_hash(*parts) -> int:
    h = hashlib.blake2b(digest_size=8)
    for p in parts:
        if isinstance(p, np.ndarray):
            h.update(np.ascontiguousarray(np.round(p.astype(float), 9)).tobytes())
        else:
            h.update(repr(p).encode())
    return int.from_bytes(h.digest(), "big")


class Monitor:
    """Per-shard accumulator. Thread-unsafe by design: one actor per shard."""

    MAX_SAMPLES = 6
    MAX_VIOL = 25
    MAX_HASHES = 400_000

    def __init__(self, prop: str, tier: str, shard: int):
        self.prop, self.tier, self.shard_no = prop, tier, shard
        self.counters: Counter = Counter()
        self.classes: Counter = Counter()
        self.hashes: set[int] = set()
        self.samples: list = []
        self.violations: list = []
        self.notes: dict = {}
        self.stats: dict = {}  # name -> running max / min

    # -- events ---------------------------------------------------------------------------
    def event(self, h: int | None = None, nontrivial: bool = True, cls: str | None = None):
        self.counters["evaluations"] += 1
        if cls:
            self.classes[cls] += 1
        if nontrivial and h is not None and len(self.hashes) < self.MAX_HASHES:
            self.hashes.add(h)

    def count(self, name: str, n: int = 1):
        self.counters[name] += n

    def stat_max(self, name: str, v: float):
        v = float(v)
        if name not in self.stats or v > self.stats[name]:
            self.stats[name] = v

    def stat_min(self, name: str, v: float):
        v = float(v)
        if name not in self.stats or v < self.stats[name]:
            self.stats[name] = v

    def sample(self, obj, force: bool = False):
        if force or len(self.samples) < self.MAX_SAMPLES:
            self.samples.append(jsonable(obj))

    def violation(self, mechanism: str, what: str, case: dict):
        """mechanism: stable key used to match known findings (never seed/hash based)."""
        self.counters["violations"] += 1
        self.counters["viol::" + mechanism] += 1
        if len(self.violations) < self.MAX_VIOL:
            self.violations.append(
                {"mechanism": mechanism, "what": what, "case": jsonable(case)}
            )

    def dump(self) -> dict:
        return {
            "counters": dict(self.counters),
            "classes": dict(self.classes),
            "hashes": sorted(self.hashes),
            "samples": self.samples,
            "violations": self.violations,
            "notes": jsonable(self.notes),
            "stats": self.stats,
        }


def shard_rng(seed: int, prop: str, shard: int) -> np.random.Generator:
    pnum = int("".join(c for c in prop if c.isdigit()) or 0)
    return np.random.default_rng(np.random.SeedSequence([seed, pnum, shard]))


def import_real_vopy():
    """Import vopy from VOPY_SRC (default /repo) and make sure that is what we got."""
    src = vopy_src()
    if src not in sys.path:
        sys.path.insert(0, src)
    import warnings

    warnings.filterwarnings("ignore")
    import vopy  # noqa

    real = os.path.realpath(os.path.dirname(vopy.__file__))
    want = os.path.realpath(os.path.join(src, "vopy"))
    if real != want:
        raise RuntimeError(f"vopy imported from {real}, expected {want}")
    return vopy


def tree_revision() -> dict:
    src = vopy_src()
    try:
        head = subprocess.run(
            ["git", "-C", src, "rev-parse", "HEAD"], capture_output=True, text=True, timeout=20
        ).stdout.strip()
        dirty = bool(
            subprocess.run(
                ["git", "-C", src, "status", "--porcelain", "--", "vopy"],
                capture_output=True,
                text=True,
                timeout=20,
            ).stdout.strip()
        )
    except Exception:
        head, dirty = "unknown", False
    return {"src": src, "head": head, "dirty": dirty}


# ---------------------------------------------------------------------------------------
# worker entry
# ---------------------------------------------------------------------------------------
def worker_main(argv):
    prop, tier, seed, shard, nshards, out = argv
    seed, shard, nshards = int(seed), int(shard), int(nshards)
    import faulthandler

    faulthandler.enable()
    os.environ.setdefault("OMP_NUM_THREADS", "1")
    mon = Monitor(prop, tier, shard)
    t0 = time.time()
    err = None
    try:
        import_real_vopy()
        try:
            import torch

            torch.set_num_threads(1)
        except Exception:
            pass
        mod = importlib.import_module(f"vmon.props.{prop.lower()}")
        rng = shard_rng(seed, prop, shard)
        mod.shard(mon, tier, rng, shard, nshards)
    except Exception:
        err = traceback.format_exc()
    d = mon.dump()
    d["error"] = err
    d["wall_s"] = time.time() - t0
    with open(out, "w") as f:
        json.dump(d, f)


# ---------------------------------------------------------------------------------------
# main entry
# ---------------------------------------------------------------------------------------
def load_known():
    p = ROOT / "known_findings.json"
    if not p.exists():
        return []
    return json.loads(p.read_text()).get("findings", [])


def run_check(prop: str, tier: str, seed: int) -> int:
    t0 = time.time()
    mod = importlib.import_module(f"vmon.props.{prop.lower()}")
    nshards = getattr(mod, "SHARDS", {}).get(tier, NPROC)
    timeout = getattr(mod, "TIMEOUT", {}).get(tier, 1500 if tier == "quick" else 7200)
    work = ROOT / ".work" / f"{prop}-{tier}-{os.getpid()}"
    work.mkdir(parents=True, exist_ok=True)
    env = dict(os.environ)
    env["PYTHONPATH"] = f"{vopy_src()}:{ROOT}"
    env["PYTHONHASHSEED"] = "0"
    env["OMP_NUM_THREADS"] = "1"
    env["MKL_NUM_THREADS"] = "1"
    env["OPENBLAS_NUM_THREADS"] = "1"
    env["PYTHONWARNINGS"] = "ignore"
    procs = []
    pending = list(range(nshards))
    running: dict[int, tuple] = {}
    results: dict[int, dict] = {}
    watchdog_fired = []
    deadline = time.time() + timeout
    while pending or running:
        while pending and len(running) < NPROC:
            s = pending.pop(0)
            out = work / f"shard{s}.json"
            log = open(work / f"shard{s}.log", "w")
            p = subprocess.Popen(
                [PY, "-m", "vmon.worker", prop, tier, str(seed), str(s), str(nshards), str(out)],
                cwd=str(ROOT),
                env=env,
                stdout=log,
                stderr=subprocess.STDOUT,
            )
            running[s] = (p, out, log)
        time.sleep(0.2)
        for s in list(running):
            p, out, log = running[s]
            rc = p.poll()
            if rc is not None:
                log.close()
                if out.exists():
                    results[s] = json.loads(out.read_text())
                else:
                    tail = (work / f"shard{s}.log").read_text()[-2000:]
                    results[s] = {"error": f"worker died rc={rc}: {tail}", "counters": {}}
                del running[s]
        if time.time() > deadline:
            for s, (p, out, log) in running.items():
                p.kill()
                log.close()
                watchdog_fired.append(s)
            running.clear()
            pending.clear()

    # ---- merge --------------------------------------------------------------------------
    counters: Counter = Counter()
    classes: Counter = Counter()
    hashes: set[int] = set()
    samples, violations, errors = [], [], []
    stats: dict = {}
    notes: dict = {}
    for s in sorted(results):
        r = results[s]
        counters.update(r.get("counters", {}))
        classes.update(r.get("classes", {}))
        hashes.update(r.get("hashes", []))
        if len(samples) < 8:
            samples.extend(r.get("samples", [])[: max(1, 8 // max(1, nshards))])
        violations.extend(r.get("violations", []))
        for k, v in r.get("stats", {}).items():
            if k.startswith("min_"):
                stats[k] = min(stats.get(k, v), v)
            else:
                stats[k] = max(stats.get(k, v), v)
        for k, v in r.get("notes", {}).items():
            notes.setdefault(k, v)
        if r.get("error"):
            errors.append((s, r["error"]))

    # ---- classify violations ------------------------------------------------------------
    known = [k for k in load_known() if k.get("property") == prop and k.get("status") == "known"]
    known_hit: dict[str, int] = {}
    unlisted = []
    for v in violations:
        for k in known:
            if v["mechanism"] == k["mechanism"]:
                known_hit[k["mechanism"]] = known_hit.get(k["mechanism"], 0) + 1
                break
        else:
            unlisted.append(v)
    # counters also carry mechanisms whose witnesses were truncated
    for name, n in counters.items():
        if name.startswith("viol::"):
            mech = name[6:]
            if any(mech == k["mechanism"] for k in known):
                known_hit[mech] = max(known_hit.get(mech, 0), n)
            elif not any(u["mechanism"] == mech for u in unlisted):
                unlisted.append({"mechanism": mech, "what": "witness truncated", "case": {}})

    # ---- verdict ------------------------------------------------------------------------
    require = getattr(mod, "REQUIRE", {}).get(tier, getattr(mod, "REQUIRE", {}).get("quick", {}))
    inconclusive = []
    for s, e in errors:
        inconclusive.append(f"shard {s} harness error: {e.strip().splitlines()[-1][:300]}")
    for s in watchdog_fired:
        inconclusive.append(f"shard {s} watchdog fired after {timeout}s")
    for name, cnt in counters.items():
        if name.startswith("inconclusive::") and cnt > 0:
            inconclusive.append(f"{name[14:]} ({cnt}x)")
    for name, mn in require.items():
        if counters.get(name, 0) < mn:
            inconclusive.append(f"monitor counter {name}={counters.get(name, 0)} < required {mn}")

    replay_dir = Path(os.environ.get("VERIF_REPLAY_DIR", ROOT / "replays"))
    replay_dir.mkdir(exist_ok=True)
    rc = 0
    lines = []
    for mech, n in sorted(known_hit.items()):
        k = next(k for k in known if k["mechanism"] == mech)
        lines.append(f"KNOWN-FINDING: property={prop} {k['id']} {k['what']} (reproduced {n}x)")
    if unlisted:
        rc = 1
        for i, v in enumerate(unlisted[:10]):
            path = replay_dir / f"{prop}-{tier}-s{seed}-{i}.json"
            path.write_text(json.dumps({"property": prop, "tier": tier, "seed": seed, **v}, indent=1))
            lines.append(f"VIOLATION property={prop} replay={path}")
            lines.append(f"  mechanism={v['mechanism']} :: {v['what']}")
    elif inconclusive:
        rc = 2
        for r in inconclusive[:10]:
            lines.append(f"INCONCLUSIVE property={prop} reason={r}")

    wall = time.time() - t0
    ev_n = int(counters.get("evaluations", 0))
    coverage = {
        "evaluations": ev_n,
        "distinct_nontrivial": len(hashes),
        "rule": getattr(mod, "RULE", ""),
        "samples": samples[:8] or [{"note": "no sample recorded"}],
        "counters": {k: int(v) for k, v in sorted(counters.items()) if not k.startswith("viol::")},
        "classes_observed": {k: int(v) for k, v in sorted(classes.items())},
        "stats": stats,
        "notes": notes,
        "known_findings_reproduced": known_hit,
        "unlisted_violation_mechanisms": sorted({u["mechanism"] for u in unlisted}),
        "inconclusive_reasons": inconclusive[:10],
        "shards": nshards,
        "watchdog_fired": watchdog_fired,
        "tree": tree_revision(),
        "verdict": {0: "held-on-observed", 1: "violated", 2: "inconclusive"}[rc],
    }
    evidence = {
        "property_id": prop,
        "tier": tier,
        "seed": int(seed),
        "level": "exploration",
        "coverage": coverage,
        "assumptions": getattr(mod, "ASSUMPTIONS", []),
        "wall_s": round(wall, 2),
        "violations": len(unlisted),
    }
    evdir = Path(os.environ.get("VERIF_EVIDENCE_DIR", ROOT / "evidence"))
    evdir.mkdir(exist_ok=True)
    (evdir / f"{prop}.json").write_text(json.dumps(evidence, indent=1))

    print(
        f"[{prop} {tier} seed={seed}] events={ev_n} distinct_nontrivial={len(hashes)} "
        f"violations={len(unlisted)} known={sum(known_hit.values())} wall={wall:.1f}s "
        f"tree={coverage['tree']['head'][:8]}{'+dirty' if coverage['tree']['dirty'] else ''}"
    )
    keyc = {k: v for k, v in coverage["counters"].items() if k != "evaluations"}
    print("  counters:", json.dumps(keyc)[:1500])
    if stats:
        print("  stats:", json.dumps(stats)[:800])
    for ln in lines:
        print(ln)
    # clean scratch
    import shutil

    if os.environ.get("VERIF_KEEP_WORK") is None:
        shutil.rmtree(work, ignore_errors=True)
    return rc


def run_replay(prop: str, path: str) -> int:
    import_real_vopy()
    mod = importlib.import_module(f"vmon.props.{prop.lower()}")
    rec = json.loads(Path(path).read_text())
    if not hasattr(mod, "replay"):
        print("no replay support for", prop)
        return 2
    mon = Monitor(prop, "replay", 0)
    mod.replay(mon, rec)
    for v in mon.violations:
        print("REPRODUCED:", v["mechanism"], "::", v["what"])
    if not mon.violations:
        print("not reproduced on this tree")
    return 1 if mon.violations else 0


def main(argv=None):
    import argparse

    ap = argparse.ArgumentParser()
    ap.add_argument("prop")
    ap.add_argument("--tier", default=os.environ.get("VERIF_TIER", "quick"))
    ap.add_argument("--replay")
    a = ap.parse_args(argv)
    prop = a.prop.upper()
    seed = int(os.environ.get("VERIF_SEED", "0"))
    if a.replay:
        sys.exit(run_replay(prop, a.replay))
    sys.exit(run_check(prop, a.tier, seed))
