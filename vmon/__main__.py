from vmon.core import main

main()
