"""Offline checkers over run traces (vmon.runs.Tracer): reference transitions recomputed from the
displayed regions with the independent geometry oracles, shadow accounting, acquisition arg-max,
premise (truth in region) and final-set conclusions."""
from __future__ import annotations

import numpy as np

from vmon.core import TAU_LP, TAU_SCS_ABS, TAU_SCS_REL, TAU_SOCP_ABS, TAU_SOCP_REL, case_hash
from vmon.oracles import geometry as G
from vmon.runs import ACQ_LOG, OPT_LOG, VARIANTS, case_public


# ---------------------------------------------------------------------------------------
# predicates on region snapshots, three-valued
# ---------------------------------------------------------------------------------------
def _mag(Ri, Rj, slack):
    vals = [np.abs(np.asarray(slack, float)).max()]
    for R in (Ri, Rj):
        if R[0] == "rect":
            vals += [np.abs(R[1]).max(), np.abs(R[2]).max()]
        else:
            vals += [np.abs(R[1]).max(), R[3] * np.sqrt(np.linalg.eigvalsh(R[2]).max())]
    return float(max(vals))


LOOSE = [False]  # set per step: a natural SolverError (SCS fallback) happened somewhere in this step


def dom3(W, Ri, Rj, slack):
    """is Ri dominated by Rj (+slack)?  returns +1 / -1 / 0 (indeterminate)"""
    mag = _mag(Ri, Rj, slack)
    if Ri[0] == "rect":
        m, _ = G.rect_dominated_margin(W, Ri[1], Ri[2], Rj[1], Rj[2], slack)
        tau = 1e-12 * (1 + mag)
    else:
        m, _ = G.ell_dominated_margin(W, Ri[1], Ri[2], Ri[3], Rj[1], Rj[2], Rj[3], slack)
        tau = TAU_SOCP_ABS + TAU_SOCP_REL * mag
        if LOOSE[0]:
            tau = max(tau, TAU_SCS_ABS + TAU_SCS_REL * mag)
    return (1 if m > tau else -1 if m < -tau else 0), m


def cov3(W, Ri, Rj, slack):
    """can Rj still cover Ri by the slack?  (exists z in Ri, z' in Rj: z' - z >= slack in the cone order)"""
    mag = _mag(Ri, Rj, slack)
    if Ri[0] == "rect":
        lo, hi = G.rect_covered_margin(W, Ri[1], Ri[2], Rj[1], Rj[2], slack)
        tau = TAU_LP * (1 + mag)
    else:
        lo, hi = G.ell_covered_margin(W, Ri[1], Ri[2], Ri[3], Rj[1], Rj[2], Rj[3], slack)
        tau = TAU_SOCP_ABS + TAU_SOCP_REL * mag
    if LOOSE[0]:
        tau = max(tau, TAU_SCS_ABS + TAU_SCS_REL * mag)
    return (1 if lo > tau else -1 if hi < -tau else 0), 0.5 * (lo + hi)


def slack_of(alg, family):
    if family == "paveba":
        return np.asarray(alg.cone_alpha_eps, float)
    if family == "vogp":
        return np.asarray(alg.u_star_eps, float)
    if family == "epal":
        return float(alg.epsilon)
    return None


def phase(step, *names):
    for p in step["phases"]:
        if p["name"] in names:
            return p
    return None


def degenerate_posterior(mon, tr, step):
    """real-GP runs only: a displayed 'region' with a negative or non-finite variance is a numerical breakdown of the fitted
    gpytorch model on the harness's synthetic data (observed: predictive variance -12.3 in round 8 of a PartialGP run, thorough
    seed 3), not a confidence region; no transition is demanded on such a step (counted, cf. degenerate_gp_fit_runs)"""
    if not str(tr.case.get("model", "")).startswith("real"):
        return False
    ph = phase(step, "discarding")
    if ph is None:
        return False
    for reg in ph.get("regions", {}).values():
        if reg[0] == "ell":
            sg = np.asarray(reg[2], float)
            bad = not np.all(np.isfinite(sg)) or not np.all(np.isfinite(reg[1])) or np.linalg.eigvalsh((sg + sg.T) / 2).min() <= 0
        else:
            bad = not (np.all(np.isfinite(reg[1])) and np.all(np.isfinite(reg[2]))) or bool((np.asarray(reg[1]) > np.asarray(reg[2])).any())
        if bad:
            mon.count("degenerate_gp_posterior_steps")
            return True
    return False


# ---------------------------------------------------------------------------------------
# C02: elimination exactly on a certificate
# ---------------------------------------------------------------------------------------
def check_discard(mon, tr, step, *a, **k):
    if degenerate_posterior(mon, tr, step):
        return
    LOOSE[0] = step.get("solver_errors", 0) > 0
    if LOOSE[0]:
        mon.count("scs_fallback_rounds_judged_with_scs_band")
    try:
        return _check_discard(mon, tr, step, *a, **k)
    finally:
        LOOSE[0] = False


def _check_discard(mon, tr, step, prop="C02"):
    case = tr.case
    fam = VARIANTS[case["variant"]]["family"] if case["variant"] in VARIANTS else case.get("family")
    ph = phase(step, "discarding")
    if ph is None:
        return
    W = case["W"]
    S_pre, P_pre, U_pre = ph["pre"]
    S_post = ph["post"][0]
    R = ph["regions"]
    eliminated = S_pre - S_post
    if not S_post <= S_pre:
        mon.violation("discard:S-grew", f"{case['variant']}: discarding added {S_post - S_pre} to S", case_public(case))
    if ph["post"][1] != P_pre:
        mon.violation("discard:P-changed", f"{case['variant']}: discarding changed P", case_public(case))
    pess = step.get("pess")

    def certificates(i, S_set, U_set):
        """three-valued results against every admissible witness for candidate i"""
        if fam == "paveba":
            wit = [j for j in (S_set | (U_set or set())) if j != i and j in R]
            return [dom3(W, R[i], R[j], 0)[0] for j in wit]
        if fam in ("vogp", "epal"):
            if i in pess:
                return []  # designs of the pessimistic set are not candidates for elimination
            return [dom3(W, R[i], R[j], slack_of(tr.alg, fam))[0] for j in pess if j in R]
        ci = (R[i][1] + R[i][2]) / 2
        bi = (R[i][2] - R[i][1]) / 2
        out = []
        for j in S_set:
            if j == i or j not in R:
                continue
            cj = (R[j][1] + R[j][2]) / 2
            bj = (R[j][2] - R[j][1]) / 2
            mval = max(0.0, float(np.min(cj - ci)))
            margin = mval - float(np.max(bi + bj))
            tau = 1e-12 * (1 + np.abs(ci).max() + np.abs(cj).max() + bi.max())
            out.append(1 if margin > tau else -1 if margin < -tau else 0)
            if margin > tau and mval <= float(np.max(bi) + np.max(bj)):
                mon.count("auer_certified_only_by_per_objective_sum")  # widths differ across objectives and it matters
        return out

    if fam in ("vogp", "epal") and pess is None:
        mon.count("pess_not_observed")
        return
    # designs that were candidates at the start of the step but had already left S when discarding ran (this happens
    # only if the phases run in another order): the certificate still decides their fate for this round
    S0, P0, U0 = step["pre"]
    S1, P1, _ = step["post"]
    for i in sorted(S0 - S_pre):
        if i not in R:
            continue
        res = certificates(i, S0, U0)
        if res and any(r == 1 for r in res) and i in (S1 | (P1 or set())):
            mon.count("must_discard")
            mon.violation(f"discard:missed:{fam}", f"{case['variant']} round {step['round_pre']}: design {i} had a region certificate at the start of the "
                          f"round but ended the round in {'P' if i in (P1 or set()) else 'S'}",
                          {**case_public(case), "round": step["round_pre"], "design": i, "regions": {k: v[1:] for k, v in R.items()}})
    for i in sorted(S_pre):
        res = certificates(i, S_pre, U_pre)
        must_discard = any(r == 1 for r in res)
        must_keep = all(r == -1 for r in res)
        observed = i in eliminated
        h = case_hash("d", case["seed"], step["round_pre"], i)
        cls = f"{case['variant']}/{'must-discard' if must_discard else 'must-keep' if must_keep else 'either'}"
        mon.event(h, must_discard or (must_keep and len(res) > 0), cls)
        if must_discard:
            mon.count("must_discard")
            mon.count(f"must_discard::{case['variant']}")
            if not observed:
                mon.violation(f"discard:missed:{fam}", f"{case['variant']} round {step['round_pre']}: design {i} has a region certificate but stayed in S",
                              {**case_public(case), "round": step["round_pre"], "design": i, "regions": {k: v[1:] for k, v in R.items()}})
        elif must_keep:
            mon.count("must_keep")
            mon.count(f"must_keep::{case['variant']}")
            if observed:
                mon.violation(f"discard:unjustified:{fam}", f"{case['variant']} round {step['round_pre']}: design {i} was eliminated without a certificate "
                              f"(witness set size {len(res)})",
                              {**case_public(case), "round": step["round_pre"], "design": i, "regions": {k: v[1:] for k, v in R.items()}, "pess": pess})
        else:
            mon.count("discard_indeterminate")
    # step-level: whatever left S without entering P left it in discarding
    left = step["pre"][0] - (step["post"][0] | (step["post"][1] or set()))
    if case["variant"] != "VOGP_AD" and left != eliminated:
        mon.violation("discard:left-outside-discarding", f"{case['variant']}: designs {left ^ eliminated} left S outside the discarding phase", case_public(case))


# ---------------------------------------------------------------------------------------
# C03: admission, usefulness, Auer hold-back
# ---------------------------------------------------------------------------------------
def _auer_cb(R, i):
    return (R[i][1] + R[i][2]) / 2, (R[i][2] - R[i][1]) / 2


def check_admit(mon, tr, step, *a, **k):
    if degenerate_posterior(mon, tr, step):
        return
    LOOSE[0] = step.get("solver_errors", 0) > 0
    if LOOSE[0]:
        mon.count("scs_fallback_rounds_judged_with_scs_band")
    try:
        return _check_admit(mon, tr, step, *a, **k)
    finally:
        LOOSE[0] = False


def _check_admit(mon, tr, step):
    case = tr.case
    fam = VARIANTS[case["variant"]]["family"] if case["variant"] in VARIANTS else case.get("family")
    ph = phase(step, "pareto_updating", "epsiloncovering")
    dph = phase(step, "discarding")
    if ph is None or dph is None:
        return
    W = case["W"]
    R = dph["regions"]
    S_mid, P_pre, U_pre = ph["pre"]
    S_post, P_post, _ = ph["post"]
    admitted = (P_post or set()) - (P_pre or set())
    pub = case_public(case)
    if not (P_post or set()) >= (P_pre or set()):
        mon.violation("admit:P-shrank", f"{case['variant']}: members {P_pre - P_post} left P", pub)
    if not admitted <= S_mid:
        mon.violation("admit:from-outside-S", f"{case['variant']}: {admitted - S_mid} entered P without being candidates", pub)
    if S_post != S_mid - admitted:
        mon.violation("admit:S-inconsistent", f"{case['variant']}: S after admission {S_post} != {S_mid} - {admitted}", pub)
    # nothing enters P anywhere else in the step (before, between or after the phases): compare with the step's own end state;
    # VOGP_AD's refinement replaces nodes by their children in place and is C18's business
    if case["variant"] != "VOGP_AD" and step.get("post") is not None and step["post"][1] is not None:
        late = set(step["post"][1]) - set(P_post or set())
        early = set(P_pre or set()) - set(step["pre"][1] or set())
        if late or early:
            mon.violation("admit:outside-the-admission-phase", f"{case['variant']} round {step['round_pre']}: designs {sorted(late | early)} entered P "
                          f"{'after' if late else 'before'} the admission phase of the step", pub)
    if case["variant"] == "VOGP_AD":
        # the gate is recomputed by the monitor: it opens (and latches) in the first round in which every
        # candidate is at the maximum depth — the algorithm's own flag is not trusted
        latch = getattr(tr, "_gate_latch", False) or bool(step.get("all_S_at_max_depth", False))
        tr._gate_latch = latch
        if not latch:
            mon.count("ad_gate_closed_rounds")
            if admitted:
                mon.violation("admit:before-max-depth", f"VOGP_AD round {step['round_pre']}: admitted {sorted(admitted)} while some candidate was below the maximum depth", pub)
            return
        mon.count("ad_gate_open_rounds")
    if fam == "auer":
        eps = case["eps"]
        tri = {}
        for i in S_mid:
            ci, bi = _auer_cb(R, i)
            rs = []
            for j in S_mid:
                if j == i:
                    continue
                cj, bj = _auer_cb(R, j)
                big = max(0.0, float(np.max(ci + eps - cj)))
                margin = float(np.min(bi + bj)) - big  # "big_m < beta in every objective"  -> blocks i
                tau = 1e-12 * (1 + np.abs(ci).max() + np.abs(cj).max())
                rs.append(1 if margin > tau else -1 if margin < -tau else 0)
                if margin > tau and big >= float(np.min(bi) + np.min(bj)):
                    mon.count("auer_blocked_only_by_per_objective_sum")
            # i in P1 iff no j blocks
            tri[i] = -1 if any(r == 1 for r in rs) else (1 if all(r == -1 for r in rs) else 0)
        if any(v == 0 for v in tri.values()):
            mon.count("admit_indeterminate", len(S_mid))
            return
        P1 = {i for i, v in tri.items() if v == 1}
        for i in sorted(S_mid):
            h = case_hash("a", case["seed"], step["round_pre"], i)
            if i not in P1:
                expected = -1
            else:
                ci, bi = _auer_cb(R, i)
                rs = []
                for j in S_mid - P1:
                    cj, bj = _auer_cb(R, j)
                    big = max(0.0, float(np.max(cj + eps - ci)))
                    margin = float(np.min(bi + bj)) - big  # "big_m <= beta" -> i still needed, held back
                    tau = 1e-12 * (1 + np.abs(ci).max() + np.abs(cj).max())
                    rs.append(1 if margin > tau else -1 if margin < -tau else 0)
                expected = -1 if any(r == 1 for r in rs) else (1 if all(r == -1 for r in rs) else 0)
                if i in P1 and any(r == 1 for r in rs):
                    mon.count("auer_held_back")
            _judge_admit(mon, case, step, i, expected, i in admitted, fam, R, h)
        return
    slack = slack_of(tr.alg, fam)
    if fam == "paveba" and R and next(iter(R.values()))[0] == "rect" and np.size(slack) not in (1, W.shape[1]):
        mon.count("admit_slack_shape_unsupported")
        return
    others_base = S_mid | ((U_pre or set()) if fam == "paveba" else (P_pre or set()))
    for i in sorted(S_mid):
        res = [cov3(W, R[i], R[j], slack)[0] for j in others_base if j != i]
        expected = -1 if any(r == 1 for r in res) else (1 if all(r == -1 for r in res) else 0)
        h = case_hash("a", case["seed"], step["round_pre"], i)
        _judge_admit(mon, case, step, i, expected, i in admitted, fam, R, h)


def _judge_admit(mon, case, step, i, expected, observed, fam, R, h):
    cls = f"{case['variant']}/{'must-admit' if expected == 1 else 'must-hold' if expected == -1 else 'either'}"
    mon.event(h, expected != 0, cls)
    ctx = {**case_public(case), "round": step["round_pre"], "design": i, "regions": {k: v[1:] for k, v in R.items()}}
    if expected == 1:
        mon.count("must_admit")
        mon.count(f"must_admit::{case['variant']}")
        if not observed:
            mon.violation(f"admit:missed:{fam}", f"{case['variant']} round {step['round_pre']}: no active region can still cover design {i}, but it was not moved to P", ctx)
    elif expected == -1:
        mon.count("must_hold")
        mon.count(f"must_hold::{case['variant']}")
        if observed:
            mon.violation(f"admit:premature:{fam}", f"{case['variant']} round {step['round_pre']}: design {i} entered P although an active region can still cover it", ctx)
    else:
        mon.count("admit_indeterminate")


def check_useful(mon, tr, step, *a, **k):
    if degenerate_posterior(mon, tr, step):
        return
    LOOSE[0] = step.get("solver_errors", 0) > 0
    if LOOSE[0]:
        mon.count("scs_fallback_rounds_judged_with_scs_band")
    try:
        return _check_useful(mon, tr, step, *a, **k)
    finally:
        LOOSE[0] = False


def _check_useful(mon, tr, step):
    case = tr.case
    ph = phase(step, "useful_updating")
    dph = phase(step, "discarding")
    if ph is None or dph is None:
        return
    W = case["W"]
    S_post, P_post, U_post = ph["post"]
    R = dict(dph["regions"])
    slack = slack_of(tr.alg, "paveba")
    if R and next(iter(R.values()))[0] == "rect" and np.size(slack) not in (1, W.shape[1]):
        return
    if not (U_post or set()) <= (P_post or set()):
        mon.violation("useful:not-subset-of-P", f"{case['variant']}: U={U_post} not within P={P_post}", case_public(case))
    for p in sorted(P_post or set()):
        if p not in R:
            # member admitted in an earlier round and no longer active: its displayed region is the last one
            reg = step["regions_post"].get(p)
            if reg is None:
                continue
            R[p] = reg
        res = [cov3(W, R[s], R[p], slack)[0] for s in S_post if s in R]
        expected = 1 if any(r == 1 for r in res) else (-1 if all(r == -1 for r in res) else 0)
        mon.event(case_hash("u", case["seed"], step["round_pre"], p), expected != 0, f"{case['variant']}/useful")
        ctx = {**case_public(case), "round": step["round_pre"], "design": p}
        if expected == 1:
            mon.count("must_useful")
            if p not in U_post:
                mon.violation("useful:missed", f"{case['variant']} round {step['round_pre']}: member {p} can still cover a candidate but is not kept useful", ctx)
        elif expected == -1:
            mon.count("must_not_useful")
            if p in U_post:
                mon.violation("useful:spurious", f"{case['variant']} round {step['round_pre']}: member {p} kept useful although it can cover no candidate", ctx)
        else:
            mon.count("useful_indeterminate")


# ---------------------------------------------------------------------------------------
# premise (truth inside displayed region) and conclusions (C01 / C05)
# ---------------------------------------------------------------------------------------
def truth_inside(reg, mu):
    if reg[0] == "rect":
        tol = 1e-12 * (1 + np.abs(mu).max())
        return bool(np.all(mu >= reg[1] - tol) and np.all(mu <= reg[2] + tol))
    d = mu - reg[1]
    try:
        q = float(d @ np.linalg.solve(reg[2], d))
    except np.linalg.LinAlgError:
        return False
    return q <= reg[3] ** 2 * (1 + 1e-9)


def premise_holds(tr):
    """truth inside the displayed region of every active design in every round (regions right after modeling)."""
    mu = tr.case["mu"]
    for st in tr.steps:
        if st.get("after_completion"):
            continue
        dph = phase(st, "discarding")
        if dph is None:
            return None
        for i, reg in dph["regions"].items():
            if i < len(mu) and not truth_inside(reg, mu[i]):
                return False
    return True


def conclusion_c01(mon, tr):
    case = tr.case
    W, mu, eps = case["W"], case["mu"], case["eps"]
    alpha, _, _ = G.cone_alpha(W)
    P = sorted(tr.alg.P)
    K = len(mu)
    scale = float(np.abs(mu).max() + eps)
    tau = 1e-6 * scale
    gaps = G.gaps(W, alpha, mu)
    pub = case_public(case)
    indet = False
    for i in range(K):
        if i in P:
            if gaps[i] > eps + tau:
                # the rectangle-mode variants use the K-vector eps*alpha as an m-vector shift: only defined for K == m
                ratio = float(np.max((W @ alpha) / alpha)) if W.shape[0] == W.shape[1] else float("nan")
                rect_mode = case["variant"] in ("PaVeBaGP-IH", "PartialGP-rect")
                if rect_mode and ratio > 1 + 1e-9 and gaps[i] <= eps * ratio * (1 + 1e-6):
                    mech = "c01:gap:rect-mode-obtuse-slack"
                else:
                    mech = f"c01:gap:{case['variant']}"
                mon.violation(mech, f"{case['variant']}/{case['cone']}: design {i} in P has gap {gaps[i]:.6g} > eps {eps:.6g} under a valid history "
                              f"(max_n w_n.alpha/alpha_n = {ratio:.4f})", {**pub, "P": P, "design": i, "gap": gaps[i]})
            elif gaps[i] > eps - tau:
                indet = True
        else:
            margins = [float(np.min(W @ (mu[p] - mu[i]))) for p in P]
            best = max(margins) if margins else -np.inf
            if best < -tau:
                mon.violation(f"c01:uncovered:{case['variant']}", f"{case['variant']}/{case['cone']}: design {i} is outside P and no member of P weakly dominates it "
                              f"(best facet margin {best:.4g})", {**pub, "P": P, "design": i})
            elif best < tau:
                indet = True
    return indet


def conclusion_c05(mon, tr):
    case = tr.case
    W, mu, eps = case["W"], case["mu"], case["eps"]
    fam = VARIANTS[case["variant"]]["family"]
    if fam == "vogp":
        u, d1, lb, feas = G.cone_ustar(W)
        s = eps * u
    else:
        s = eps * np.ones(W.shape[1])
    P = sorted(tr.alg.P)
    K = len(mu)
    tau = 1e-6 * float(np.abs(mu).max() + eps)
    pub = case_public(case)
    indet = False
    for i in range(K):
        vals = [float(np.min(W @ (mu[j] + s - mu[i]))) for j in range(K) if j != i]
        best = max(vals) if vals else -np.inf
        if best < -tau:  # eps-isolated: nobody matches it up to the slack
            mon.count("isolated_designs")
            if i not in P:
                mon.violation(f"c05:isolated-missing:{case['variant']}", f"{case['variant']}/{case['cone']}: design {i} is eps-isolated (best {best:.4g}) but not in P={P}",
                              {**pub, "P": P, "design": i})
        elif best < tau:
            indet = True
    for i in P:
        for j in P:
            if i == j:
                continue
            v = float(np.min(W @ (mu[j] - s - mu[i])))
            if v > tau:
                mon.violation(f"c05:member-dominated:{case['variant']}", f"{case['variant']}/{case['cone']}: member {i} is dominated by member {j} by more than the eps-slack ({v:.4g})",
                              {**pub, "P": P, "design": i, "by": j})
            elif v > -tau:
                indet = True
    return indet


# ---------------------------------------------------------------------------------------
# C06: monotone, clean termination, accounting
# ---------------------------------------------------------------------------------------
def crash_key(tr, exc):
    import traceback as tb

    frames = tb.extract_tb(exc.__traceback__)
    fn = "?"
    for fr in reversed(frames):
        if "/vopy/" in fr.filename:
            fn = fr.name
            break
    case = tr.case
    v = case["variant"]
    W = case["W"]
    tag = ""
    if v in ("PaVeBaGP-IH", "PartialGP-rect") and W.shape[0] != W.shape[1] and isinstance(exc, ValueError) and fn == "is_covered":
        tag = ":rect-mode-K!=m"
    if v == "VOGP_AD" and case.get("in_dim") == 1 and isinstance(exc, IndexError) and fn == "calculate_design_vh":
        tag = ":1d-domain"
    return f"crash:{type(exc).__name__}:{fn}{tag}"


def check_accounting(mon, tr):
    case = tr.case
    alg = tr.alg
    v = case["variant"]
    pub = case_public(case)
    if tr.ctor_crash:
        return
    ever_left = set()
    done_seen = False
    costs = getattr(alg, "costs", None)
    for k, st in enumerate(tr.steps):
        if st["crash"] is not None:
            mon.violation(crash_key(tr, st["crash"]), f"{v}/{case['cone']} K={case['K']} batch={case['batch']}: run_one_step raised {st['crash']!r} in round {st['round_pre']}",
                          {**pub, "round": st["round_pre"]})
            return
        S0, P0, U0 = st["pre"]
        S1, P1, U1 = st["post"]
        reqs = tr.rec.log[st["req_start"]:st["req_end"]]
        n_eval = sum(len(np.atleast_2d(r["x"])) for r in reqs)
        mon.event(case_hash("s", case["seed"], k), n_eval > 0 or S0 != S1, f"{v}/step")
        mon.count("steps_checked")
        ctx = {**pub, "step": k, "round": st["round_pre"]}
        if done_seen or st.get("after_completion"):
            mon.count("post_completion_steps")
            if not bool(st["returned"]):
                mon.violation("account:completion-not-sticky", f"{v}: a step after completion returned {st['returned']}", ctx)
            if (S0, P0, U0) != (S1, P1, U1) or st["round_pre"] != st["round_post"] or st["count_pre"] != st["count_post"] \
                    or st["cost_pre"] != st["cost_post"] or n_eval:
                mon.violation("account:step-after-completion-changed-state", f"{v}: a step after completion changed state or took {n_eval} samples", ctx)
            continue
        # monotonicity
        is_ad = v == "VOGP_AD"
        if P1 is not None:
            if not is_ad:
                if not S1 <= S0:
                    mon.violation("account:S-grew", f"{v}: S grew by {S1 - S0}", ctx)
                if not P1 >= P0:
                    mon.violation("account:P-shrank", f"{v}: P lost {P0 - P1}", ctx)
            if S1 & P1:
                mon.violation("account:S-P-overlap", f"{v}: S and P share {S1 & P1}", ctx)
            if U1 is not None and not U1 <= P1:
                mon.violation("account:U-not-in-P", f"{v}: U={U1}, P={P1}", ctx)
            if ever_left & S1:
                mon.violation("account:design-returned", f"{v}: designs {ever_left & S1} returned to S", ctx)
            ever_left |= (S0 - S1)
        # completion flag
        if P1 is not None:
            budget_hit = getattr(alg, "cost_budget", None) is not None and st["cost_post"] is not None and st["cost_post"] >= alg.cost_budget
            expect_done = (len(S1) == 0) or bool(budget_hit and v.startswith("PartialGP"))
            if bool(st["returned"]) != expect_done:
                mon.violation("account:completion-flag", f"{v}: returned {st['returned']} with |S|={len(S1)}, cost {st['cost_post']}, budget {getattr(alg, 'cost_budget', None)}", ctx)
            if st["returned"]:
                mon.count("completions")
                if budget_hit and len(S1) > 0:
                    mon.count("budget_terminations")
        elif v == "NaiveElimination":
            if bool(st["returned"]) != (st["round_post"] == alg.L):
                mon.violation("account:completion-flag", f"{v}: returned {st['returned']} at round {st['round_post']} of {alg.L}", ctx)
        elif v == "DecoupledGP":
            if bool(st["returned"]) != (st["cost_post"] >= alg.cost_budget):
                mon.violation("account:completion-flag", f"{v}: returned {st['returned']} with cost {st['cost_post']} / budget {alg.cost_budget}", ctx)
        if st["returned"]:
            done_seen = True
        # round counter
        if st["round_post"] != st["round_pre"] + 1:
            mon.violation("account:round-counter", f"{v}: round went {st['round_pre']} -> {st['round_post']} in one active step", ctx)
        # samples / cost
        if st["count_post"] - st["count_pre"] != n_eval:
            mon.violation("account:sample-count", f"{v}: sample_count advanced by {st['count_post'] - st['count_pre']} but {n_eval} evaluations were requested "
                          f"(batch {case['batch']}, |active| {len(S0 | (P0 or set()))})", ctx)
        if st["cost_pre"] is not None:
            spent = 0.0
            for r in reqs:
                ei = r["evaluation_index"]
                if costs is not None and ei is not None:
                    spent += float(np.sum(np.asarray(costs, float)[np.asarray(ei, int)]))
            if abs((st["cost_post"] - st["cost_pre"]) - spent) > 1e-9 * (1 + spent):
                mon.violation("account:total-cost", f"{v}: total_cost advanced by {st['cost_post'] - st['cost_pre']} but requested objectives cost {spent}", ctx)
            if costs is not None:
                mon.count("cost_steps")
        if n_eval:
            mon.count("sampling_steps")


# ---------------------------------------------------------------------------------------
# C07: acquisition arg-max and data delivery
# ---------------------------------------------------------------------------------------
def check_acquisition(mon, tr, step):
    case = tr.case
    v = case["variant"]
    alg = tr.alg
    ph = phase(step, "evaluating", "evaluate_refine")
    if ph is None:
        return
    pub = {**case_public(case), "round": step["round_pre"]}
    info = VARIANTS.get(v, {})
    S0, P0, U0 = ph["pre"]
    fam = info.get("family")
    active = set(S0) | ((U0 or set()) if fam == "paveba" else (P0 or set()) if fam in ("vogp", "epal") else set())
    if fam == "decoupled":
        active = set(range(case["K"]))
    reqs = tr.rec.log[ph["req_start"]:ph["req_end"]]
    X = case["X"]
    d = X.shape[1]

    def design_of(x):
        d2 = ((X - np.asarray(x)[:d]) ** 2).sum(1)
        i = int(np.argmin(d2))
        return i if d2[i] <= 1e-18 else None

    requested = []  # (design, objective or None, y)
    for r in reqs:
        xs = np.atleast_2d(r["x"])
        ei = r["evaluation_index"]
        ys = r["y"]
        for row, x in enumerate(xs):
            i = design_of(x)
            if i is None:
                mon.violation("acq:request-not-a-design", f"{v}: requested point {x} is not a design", pub)
                return
            if ei is None:
                requested.append((i, None, tuple(np.atleast_1d(ys[row]).tolist())))
            else:
                k = int(np.asarray(ei).reshape(-1)[row]) if np.ndim(ei) else int(ei)
                requested.append((i, k, (float(np.asarray(ys).reshape(-1)[row]),)))
    mon.count("evaluations_observed", len(requested))
    for (i, k, y) in requested:
        mon.event(case_hash("e", case["seed"], step["round_pre"], i, k), True, f"{v}/request")
        if i not in active:
            mon.violation("acq:inactive-design-sampled", f"{v} round {step['round_pre']}: design {i} sampled but active set is {sorted(active)}", pub)
    # ---- bandits: every active design once ------------------------------------------------
    if info.get("bandit"):
        got = sorted(i for i, _, _ in requested)
        if got != sorted(active):
            mon.violation("acq:not-every-active-once", f"{v} round {step['round_pre']}: sampled {got}, active {sorted(active)}", pub)
        mon.count("bandit_rounds")
    else:
        allo = OPT_LOG[ph["opt_start"]:ph["opt_end"]]
        opts = [o for o in allo if not o.get("nested")]
        nested = [o for o in allo if o.get("nested")]
        if len(opts) != 1:
            mon.count("optimiser_calls_unexpected")
        for o in opts:
            _check_optimiser_record(mon, tr, step, ph, o, active, requested, design_of, pub, nested)
    # ---- data delivery: exactly the returned observations reach the model ----------------
    before = ph["model_before"]
    after = ph["model_after"]

    def norm(entries):
        out = []
        for (key, k, y) in entries:
            i = key if isinstance(key, (int, np.integer)) else design_of(np.asarray(key))
            out.append((int(i) if i is not None else -1, k, tuple(np.round(y, 14))))
        return sorted(out, key=repr)

    nb, na = norm(before), norm(after)
    delta = list(na)
    for e in nb:
        if e in delta:
            delta.remove(e)
        else:
            mon.violation("data:sample-lost", f"{v}: an earlier observation disappeared from the model's data", pub)
            return
    want = sorted([(i, k, tuple(np.round(y, 14))) for (i, k, y) in requested], key=repr)
    mon.count("data_delta_checked")
    if sorted(delta, key=repr) != want:
        mon.violation("data:delta-mismatch", f"{v} round {step['round_pre']}: model data grew by {sorted(delta, key=repr)[:4]}..., requests returned {want[:4]}...", pub)


def _check_joint_tables(mon, tr, step, ph, o, picks, design_of, pub):
    v = tr.case["variant"]
    tables = ACQ_LOG[o["acq_slice"][0]:o["acq_slice"][1]]
    remaining = None
    for k, (t, pick) in enumerate(zip(tables, picks)):
        ids = [design_of(x) for x in t["x"]]
        tv = np.asarray(t["values"], float)
        mon.count("tables_checked")
        best = tv.max()
        if pick not in ids or tv[ids.index(pick)] < best - 1e-12 * (1 + abs(best)):
            mon.violation("acq:not-argmax", f"{v} round {step['round_pre']}: pick {k} is design {pick} with value "
                          f"{tv[ids.index(pick)] if pick in ids else None}, table maximum {best}", pub)
        elif abs(tv[ids.index(pick)] - float(np.asarray(o["values"]).reshape(-1)[k])) > 1e-12 * (1 + abs(best)):
            mon.violation("acq:value-not-from-table", f"{v}: pick {pick} reported {np.asarray(o['values']).reshape(-1)[k]}, table has {tv[ids.index(pick)]}", pub)
        if remaining is not None and sorted(ids) != sorted(remaining):
            mon.violation("acq:chosen-not-removed", f"{v}: table {k} offered {sorted(ids)}, expected {sorted(remaining)}", pub)
        remaining = [i for i in ids if i != pick]
        _check_rule(mon, tr, ph, t, ids, tv, pub)
    if len(tables) != len(picks):
        mon.violation("acq:table-count", f"{v}: {len(tables)} acquisition evaluations for {len(picks)} picks", pub)


def _check_optimiser_record(mon, tr, step, ph, o, active, requested, design_of, pub, nested=()):
    case = tr.case
    v = case["variant"]
    tables = ACQ_LOG[o["acq_slice"][0]:o["acq_slice"][1]]
    q = o["q"]
    cands = np.atleast_2d(o["candidates"])
    # choices offered = the active set
    offered = sorted(design_of(x) for x in o["choices"])
    if offered != sorted(active):
        mon.violation("acq:choices-not-active-set", f"{v}: optimiser was offered {offered}, active set {sorted(active)}", pub)
    picks = [design_of(x) for x in cands]
    n_avail = len(active) if o["kind"] == "joint" else len(active) * case["m"]
    tables = ACQ_LOG[o["acq_slice"][0]:o["acq_slice"][1]]
    if len(picks) != min(q, n_avail):
        mon.violation("acq:batch-size", f"{v}: batch of {len(picks)} for q={q}, {n_avail} available", pub)
    if o["kind"] == "joint":
        if len(set(picks)) != len(picks):
            mon.violation("acq:duplicate-in-batch", f"{v}: batch picks {picks}", pub)
        vals = np.asarray(o["values"], float)
        if (np.diff(vals) > (1e-6 if str(case.get("model", "")).startswith("real") else 1e-12) * (1 + np.abs(vals).max())).any():  # real GP: see DESIGN 9.3b
            mon.violation("acq:batch-not-non-increasing", f"{v}: batch values {vals}", pub)
        _check_joint_tables(mon, tr, step, ph, o, picks, design_of, pub)
        got = [i for i, _, _ in requested]
        if got != picks:
            mon.violation("acq:request-differs-from-picks", f"{v}: optimiser picked {picks}, problem was asked {got}", pub)
    else:
        ei = [int(e) for e in np.asarray(o["eval_indices"]).reshape(-1)]
        pairs = list(zip(picks, ei))
        if len(set(pairs)) != len(pairs):
            mon.violation("acq:duplicate-in-batch", f"{v}: batch pairs {pairs}", pub)
        vals = np.asarray(o["values"], float)
        if (np.diff(vals) > (1e-6 if str(case.get("model", "")).startswith("real") else 1e-12) * (1 + np.abs(vals).max())).any():  # real GP: see DESIGN 9.3b
            mon.violation("acq:batch-not-non-increasing", f"{v}: batch values {vals}", pub)
        # per-objective greedy lists (nested joint optimisations), each judged against its own tables
        pool = []
        for k_obj, no in enumerate(nested):
            npicks = [design_of(x) for x in np.atleast_2d(no["candidates"])]
            if len(set(npicks)) != len(npicks):
                mon.violation("acq:duplicate-in-batch", f"{v}: objective {k_obj} list {npicks}", pub)
            _check_joint_tables(mon, tr, step, ph, no, npicks, design_of, pub)
            for i, val in zip(npicks, np.asarray(no["values"], float).reshape(-1)):
                pool.append(((i, k_obj), float(val)))
        if len(nested) != case["m"]:
            mon.count("decoupled_nested_incomplete")
        else:
            order = sorted((val for _, val in pool), reverse=True)
            lookup = {}
            for pr, val in pool:
                lookup.setdefault(pr, val)
            for k, (pr, val) in enumerate(zip(pairs, vals)):
                if pr not in lookup or abs(lookup[pr] - val) > 1e-12 * (1 + abs(val)):
                    mon.violation("acq:value-not-from-table", f"{v}: pair {pr} reported {val}, per-objective list has {lookup.get(pr)}", pub)
                elif val < order[k] - 1e-12 * (1 + abs(order[k])):
                    mon.violation("acq:not-argmax", f"{v} round {step['round_pre']}: batch item {k} = {pr} has value {val}, the {k + 1}-th largest candidate value is {order[k]}", pub)
        got = [(i, k) for i, k, _ in requested]
        if got != pairs:
            mon.violation("acq:request-differs-from-picks", f"{v}: optimiser picked {pairs}, problem was asked {got}", pub)


def _check_rule(mon, tr, ph, t, ids, tv, pub):
    """rule-level recomputation on the pre-step state for the deterministic rules."""
    v = tr.case["variant"]
    R = ph.get("regions", {})
    acq = t["acq"]
    if acq == "MaxDiagonalAcquisition":
        for i, val in zip(ids, tv):
            reg = R.get(i)
            if reg is None:
                continue
            want = float(np.linalg.norm(reg[2] - reg[1]))
            mon.count("rule_values_checked")
            if abs(want - val) > 1e-9 * (1 + want):
                mon.violation("acq:rule-value", f"{v}: MaxDiagonal value of design {i} is {val}, region diagonal {want}", pub)
    elif acq in ("SumVarianceAcquisition", "MaxVarianceDecoupledAcquisition"):
        pred = ph.get("pred")
        if pred is None:
            return
        # the harness predicted all designs in one batch, the acquisition the active ones: a gpytorch model answers different
        # batch compositions with values differing in the 7th-8th digit (observed 1e-7 relative, thorough seed 1); stubs exactly
        rt = 1e-6 if str(tr.case.get("model", "")).startswith("real") else 1e-9
        for i, val in zip(ids, tv):
            if i not in pred:
                continue
            cov = pred[i]
            if acq == "SumVarianceAcquisition":
                want = float(np.trace(cov))
            else:
                k = int(t["evaluation_index"])
                want = float(cov[k, k])
                costs = getattr(tr.alg, "costs", None)  # the algorithm's configured costs, not what the acquisition object was handed
                if costs is not None:
                    want /= float(np.asarray(costs, float)[k])
            mon.count("rule_values_checked")
            if abs(want - val) > rt * (1 + abs(want)):
                mon.violation("acq:rule-value", f"{v}: {acq} value of design {i} is {val}, recomputed {want}", pub)


# ---------------------------------------------------------------------------------------
# C11 in-run channel: the pessimistic set actually computed vs the per-vertex LP oracle
# ---------------------------------------------------------------------------------------
def check_pess(mon, tr, step):
    case = tr.case
    dph = phase(step, "discarding")
    pess = step.get("pess")
    if dph is None or pess is None:
        return
    W = case["W"]
    R = dph["regions"]
    two_by_two = W.shape == (2, 2)
    act = sorted(R)
    for i in act:
        lo_best, hi_best = -np.inf, -np.inf
        for j in act:
            if j == i:
                continue
            lo, hi = G.pess_dominates_margin(W, R[j][1], R[j][2], R[i][1], R[i][2])  # does R_j pessimistically dominate R_i ?
            lo_best, hi_best = max(lo_best, lo), max(hi_best, hi)
        mag = max(float(np.abs(R[k][1]).max() + np.abs(R[k][2]).max()) for k in act)
        tau = TAU_LP * (1 + mag)
        mon.count("inrun_pess_events")
        observed_in = i in pess
        h = case_hash("pp", case["seed"], step["round_pre"], i)
        ctx = {**case_public(case), "round": step["round_pre"], "design": i, "regions": {k: v[1:] for k, v in R.items()}}
        if hi_best < -tau:  # nobody can dominate it: must be in the pessimistic set (soundness of check_dominates)
            mon.event(h, True, "inrun/must-be-pessimistic")
            mon.count("decisive_false")
            if not observed_in:
                mon.violation("pess:excluded-without-dominator", f"{case['variant']} round {step['round_pre']}: design {i} left out of the pessimistic "
                              f"set but no active box pessimistically dominates it (best margin {hi_best:.4g})", ctx)
        elif lo_best > tau and two_by_two and len(act) > 1:
            mon.event(h, True, "inrun/must-not-be-pessimistic")
            mon.count("complete_true_2x2")
            if observed_in:
                mon.violation("pess:kept-despite-dominator", f"{case['variant']} round {step['round_pre']}: design {i} is pessimistically dominated "
                              f"(margin {lo_best:.4g}) but is in the pessimistic set", ctx)
        else:
            mon.event(h, False, "inrun/indeterminate")


# ---------------------------------------------------------------------------------------
# C07 for VOGP_AD: the arg-max node is either refined or sampled at its centre
# ---------------------------------------------------------------------------------------
def check_acquisition_ad(mon, tr, step):
    case = tr.case
    alg = tr.alg
    ph = phase(step, "evaluate_refine")
    if ph is None:
        return
    ds = alg.design_space
    pub = {**case_public(case), "round": step["round_pre"]}
    S0, P0, _ = ph["pre"]
    active = set(S0) | set(P0 or set())
    R = ph["regions"]
    pts_before = ds.points[: ph["n_points_before"]]

    def node_of(x):
        hit = np.nonzero((pts_before == np.asarray(x)[None, :]).all(axis=1))[0]
        return int(hit[0]) if len(hit) else None

    opts = [o for o in OPT_LOG[ph["opt_start"]:ph["opt_end"]] if not o.get("nested")]
    if len(opts) != 1:
        mon.count("optimiser_calls_unexpected")
        return
    o = opts[0]
    offered = sorted(node_of(x) for x in o["choices"])
    if offered != sorted(active):
        mon.violation("acq:choices-not-active-set", f"VOGP_AD: optimiser was offered {offered}, active nodes {sorted(active)}", pub)
        return
    pick = node_of(np.atleast_2d(o["candidates"])[0])
    diag = {i: float(np.linalg.norm(R[i][2] - R[i][1])) for i in active}
    best = max(diag.values())
    mon.count("tables_checked")
    mon.count("rule_values_checked", len(diag))
    mon.event(case_hash("ade", case["seed"], step["round_pre"]), True, "VOGP_AD/evaluate-refine")
    if pick is None or diag[pick] < best - 1e-9 * (1 + best):
        mon.violation("acq:not-argmax", f"VOGP_AD round {step['round_pre']}: picked node {pick} with diagonal {diag.get(pick)}, maximum {best}", pub)
        return
    reqs = tr.rec.log[ph["req_start"]:ph["req_end"]]
    refined = len(ds.points) > ph["n_points_before"] if step is tr.steps[-1] else None
    n_after = step.get("npoints_post")
    refined = (S0 | (P0 or set())) != (ph["post"][0] | (ph["post"][1] or set()))
    if refined:
        mon.count("ad_refine_steps")
        if reqs:
            mon.violation("acq:refine-and-sample", f"VOGP_AD: node {pick} was refined and {len(reqs)} observation(s) requested in the same step", pub)
        if pick in (ph["post"][0] | (ph["post"][1] or set())):
            mon.violation("acq:refined-other-node", f"VOGP_AD: arg-max node {pick} still active after a refining step", pub)
    else:
        mon.count("ad_sample_steps")
        mon.count("evaluations_observed", len(reqs))
        if len(reqs) != 1 or len(np.atleast_2d(reqs[0]["x"])) != 1:
            mon.violation("acq:batch-size", f"VOGP_AD: {len(reqs)} requests in a sampling step", pub)
            return
        x = np.atleast_2d(reqs[0]["x"])[0]
        if node_of(x) != pick:
            mon.violation("acq:request-differs-from-picks", f"VOGP_AD: arg-max node {pick} at {ds.points[pick]}, problem was asked at {x}", pub)
        # data delivery
        before, after = ph["model_before"], ph["model_after"]
        new = [e for e in after if e not in before]
        mon.count("data_delta_checked")
        want_y = tuple(np.round(np.atleast_2d(reqs[0]["y"])[0], 14))
        if len(after) != len(before) + 1 or len(new) != 1 or tuple(np.round(new[0][2], 14)) != want_y \
                or np.abs(np.asarray(new[0][0]) - x).max() > 0:
            mon.violation("data:delta-mismatch", f"VOGP_AD round {step['round_pre']}: model data grew by {new[:2]}, request returned {want_y} at {x}", pub)
